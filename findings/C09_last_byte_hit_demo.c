/* Public API demo: a hit on the LAST byte of a run call (when max_len - w is odd, SSE/AVX2 scan)
 * was reported one position late: offset == max_len + 1 (outside the buffer), and the history was
 * refreshed from buffer[max_len] (one byte past the end).  gcc -Iinclude demo.c bin/isa-l_crypto.a */
#include <stdio.h>
#include <string.h>
#include <stdint.h>
#include "rolling_hashx.h"
#include "isal_crypto_api.h"
int main(void)
{
        static struct isal_rh_state2 st;
        uint8_t init[48] = { 0 }, buf[64];
        for (int i = 0; i < 64; i++) buf[i] = (uint8_t) (i * 37 + 11);
        int bad = 0;
        for (uint32_t w = 1; w <= 48; w++)
                for (uint32_t len = w + 1; len <= w + 8 && len <= 64; len++) {
                        uint32_t off = 0; int match = -1;
                        isal_rolling_hash2_init(&st, w);
                        isal_rolling_hash2_reset(&st, init);
                        /* mask 0, trigger 0: every position is a hit; the first w bytes are consumed first */
                        /* find the hash at the last byte by scanning with a never-matching trigger */
                        isal_rolling_hash2_run(&st, buf, len - 1, 0, 1, &off, &match); /* trigger&~mask != 0: never hits */
                        uint32_t off2 = 0;
                        isal_rolling_hash2_run(&st, buf + len - 1, 1, 0, 0, &off2, &match); /* 1 byte, must hit at offset 1 */
                        (void) off2;
                        /* now the real probe: one call over len bytes with a mask that only the final hash satisfies */
                        isal_rolling_hash2_reset(&st, init);
                        uint32_t mask = 0xffffffffu, trig;
                        { struct isal_rh_state2 t = st; uint32_t o; int m; isal_rolling_hash2_run(&t, buf, len, 0, 1, &o, &m); trig = (uint32_t) t.hash; }
                        isal_rolling_hash2_run(&st, buf, len, mask, trig & mask, &off, &match);
                        if (match == ISAL_FINGERPRINT_RET_HIT && off > len) {
                                printf("w=%u max_len=%u: HIT reported at offset %u > max_len\n", w, len, off);
                                bad++;
                        }
                }
        printf(bad ? "FAIL: %d out-of-range offsets\n" : "OK\n", bad);
        return bad != 0;
}
