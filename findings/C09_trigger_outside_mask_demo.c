#include <stdio.h>
#include <stdlib.h>
#include <string.h>
#include <stdint.h>
#include "rolling_hashx.h"
int main(void)
{
        struct isal_rh_state2 *st = malloc(sizeof *st);
        uint32_t len = 4096;
        uint8_t *buf = malloc(len);
        for (uint32_t i = 0; i < len; i++) buf[i] = (uint8_t) (i * 131 + (i >> 3));
        uint32_t off = 0xdeadbeef; int match = -1;
        isal_rolling_hash2_init(st, 16);
        isal_rolling_hash2_reset(st, buf);
        /* trigger has a bit outside mask: (hash & mask) == trigger holds nowhere, so the run must consume max_len bytes */
        int r = isal_rolling_hash2_run(st, buf, len, 0x0f, 0x13, &off, &match);
        printf("ret=%d match=%d offset=%u (expected match=%d offset=%u)\n", r, match, off, ISAL_FINGERPRINT_RET_MAX, len);
        return !(match == ISAL_FINGERPRINT_RET_MAX && off == len);
}
