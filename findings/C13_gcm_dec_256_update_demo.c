/* FIPS build: after a FAILED self test isal_aes_gcm_dec_256_update still decrypts (returns 0,
 * writes its output); its sibling isal_aes_gcm_dec_128_update refuses.  Build against a library
 * made with `make -f Makefile.unx FIPS_MODE=y`:  gcc -Iinclude demo.c bin/isa-l_crypto.a */
#include <stdio.h>
#include <string.h>
#include <stdint.h>
#include "aes_gcm.h"
#include "isal_crypto_api.h"
void asm_set_self_tests_status(int);
int main(void)
{
        static struct isal_gcm_key_data k128, k256; static struct isal_gcm_context_data c128, c256;
        uint8_t key[32] = { 1 }, iv[12] = { 2 }, in[64], out128[64], out256[64];
        memset(in, 0x5a, sizeof in); memset(out128, 0xEE, sizeof out128); memset(out256, 0xEE, sizeof out256);
        /* self tests run and pass here */
        if (isal_aes_gcm_pre_128(key, &k128) || isal_aes_gcm_pre_256(key, &k256)) return 2;
        if (isal_aes_gcm_init_128(&k128, &c128, iv, NULL, 0) || isal_aes_gcm_init_256(&k256, &c256, iv, NULL, 0)) return 2;
        asm_set_self_tests_status(1); /* the module is now in the "self tests failed" state */
        int r128 = isal_aes_gcm_dec_128_update(&k128, &c128, out128, in, 64);
        int r256 = isal_aes_gcm_dec_256_update(&k256, &c256, out256, in, 64);
        int w128 = out128[0] != 0xEE, w256 = out256[0] != 0xEE;
        printf("dec_128_update: rc=%d output written=%d\n", r128, w128);
        printf("dec_256_update: rc=%d output written=%d\n", r256, w256);
        if (r128 != ISAL_CRYPTO_ERR_SELF_TEST || w128) { printf("FAIL: dec_128_update not fail-closed\n"); return 1; }
        if (r256 != ISAL_CRYPTO_ERR_SELF_TEST || w256) { printf("FAIL: dec_256_update not fail-closed\n"); return 1; }
        printf("OK: both fail closed\n");
        return 0;
}
