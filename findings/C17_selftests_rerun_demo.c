/* FIPS build: when a SHA known-answer test fails (_sha_self_tests() returns -1), isal_self_tests()
 * stores 0xFFFFFFFF in the status word; every later call then finds "not done", loses the
 * compare-and-swap, leaves the wait loop at once and RE-RUNS the self tests (possibly concurrently);
 * a later pass flips the verdict.  Build against a FIPS_MODE=y library:
 *   gcc -Iinclude demo.c bin/isa-l_crypto.a -Wl,--wrap=_sha_self_tests -o demo */
#include <stdio.h>
#include "isal_crypto_api.h"
int __real__sha_self_tests(void);
static int runs, fail_first = 1;
int __wrap__sha_self_tests(void)
{
        runs++;
        if (fail_first) return -1;      /* what the real function returns when a digest mismatches */
        return __real__sha_self_tests();
}
int main(void)
{
        int r1 = isal_self_tests(), n1 = runs;
        int r2 = isal_self_tests(), n2 = runs;
        fail_first = 0;                 /* the transient fault is gone */
        int r3 = isal_self_tests(), n3 = runs;
        int r4 = isal_self_tests(), n4 = runs;
        printf("call 1: rc=%d sha self tests run %d time(s)\n", r1, n1);
        printf("call 2: rc=%d sha self tests run %d time(s)\n", r2, n2);
        printf("call 3: rc=%d sha self tests run %d time(s)\n", r3, n3);
        printf("call 4: rc=%d sha self tests run %d time(s)\n", r4, n4);
        int bad = 0;
        if (n4 != 1) { printf("FAIL: self tests executed %d times, not exactly once\n", n4); bad = 1; }
        if (r1 == 0 || r2 != r1 || r3 != r1 || r4 != r1) { printf("FAIL: verdict changed after it was published (%d %d %d %d)\n", r1, r2, r3, r4); bad = 1; }
        if (!bad) printf("OK: run once, one verdict\n");
        return bad;
}
