#include <stdio.h>
#include <stdlib.h>
#include <string.h>
#include "sha256_mb.h"
#include "isal_crypto_api.h"
int main(void){
  ISAL_SHA256_HASH_CTX_MGR *mgr; posix_memalign((void**)&mgr,64,sizeof *mgr);
  static ISAL_SHA256_HASH_CTX ctx[17]; static unsigned char buf[17][4096];
  ISAL_SHA256_HASH_CTX *out; int rc, bad=0;
  isal_sha256_ctx_mgr_init(mgr);
  for(int i=0;i<17;i++){ isal_hash_ctx_init(&ctx[i]); memset(buf[i],i,sizeof buf[i]); }
  rc=isal_sha256_ctx_mgr_submit(mgr,&ctx[0],&out,buf[0],64,ISAL_HASH_ENTIRE);   /* A: short job, in flight */
  printf("submit A rc=%d out=%p\n",rc,(void*)out);
  rc=isal_sha256_ctx_mgr_submit(mgr,&ctx[0],&out,buf[0],64,ISAL_HASH_ENTIRE);   /* rejected: A still processing */
  printf("re-submit A rc=%d (expected %d) out==A:%d\n",rc,ISAL_CRYPTO_ERR_ALREADY_PROCESSING,out==&ctx[0]);
  for(int i=1;i<17;i++){
    rc=isal_sha256_ctx_mgr_submit(mgr,&ctx[i],&out,buf[i],4096,ISAL_HASH_ENTIRE); /* all valid */
    if(rc!=0){ printf("VALID submit of ctx %d reported failure rc=%d (returned ctx index %ld, its error=%d)\n",i,rc,(long)(out-ctx),out?out->error:0); bad++; }
  }
  return bad?1:0;
}
