#include <stdio.h>
#include <stdlib.h>
#include <string.h>
#include <stdint.h>
#include "rolling_hashx.h"
int main(void)
{
        struct isal_rh_state2 *st = malloc(sizeof *st);
        size_t len = 0x80000040ull; /* 2 GiB + 64 */
        uint8_t *buf = malloc(len);
        if (!buf || !st) return 77;
        memset(buf, 0x5a, len);
        uint32_t off = 0xdeadbeef; int match = -1;
        isal_rolling_hash2_init(st, 16);
        isal_rolling_hash2_reset(st, buf);
        /* mask 0, trigger 1: (hash & 0) == 1 never holds, so the run must consume max_len bytes */
        int r = isal_rolling_hash2_run(st, buf, (uint32_t) len, 0, 1, &off, &match);
        printf("max_len=%u ret=%d match=%d offset=%u (expected match=%d offset=%u)\n", (uint32_t) len, r, match, off, ISAL_FINGERPRINT_RET_MAX, (uint32_t) len);
        return !(match == ISAL_FINGERPRINT_RET_MAX && off == (uint32_t) len);
}
