/* C11 (base family): a rejected submit poisons the next VALID call.
 * _sha256_ctx_mgr_submit_base never resets ctx->error on an accepted UPDATE / LAST, so after one rejected call
 * (here: invalid flags on an idle, mid-stream context) every later valid submit of that context still carries the
 * old error, which isal_sha256_ctx_mgr_submit() (sha256_mb/sha256_mb.c: `if (*ctx_out == ctx_in && ctx_in->error)`)
 * reports as a failure.  The scheduler-driven families clear the field after their checks.
 * Build: gcc -O1 -I/repo/include findings/C11_base_stale_error_demo.c /repo/.libs/libisal_crypto.a -o demo
 * exit 0 = property holds, 1 = violated. */
#include <stdio.h>
#include <string.h>
#include <stdlib.h>
#include "sha256_mb.h"
ISAL_SHA256_HASH_CTX *_sha256_ctx_mgr_submit_base(ISAL_SHA256_HASH_CTX_MGR *, ISAL_SHA256_HASH_CTX *, const void *, uint32_t, ISAL_HASH_CTX_FLAG);
void _sha256_ctx_mgr_init_base(ISAL_SHA256_HASH_CTX_MGR *);
int main(void)
{
        ISAL_SHA256_HASH_CTX_MGR *mgr = NULL;
        ISAL_SHA256_HASH_CTX ctx;
        static const uint8_t a[10] = "0123456789", b[5] = "abcde";
        if (posix_memalign((void **) &mgr, 16, sizeof *mgr)) return 77;
        _sha256_ctx_mgr_init_base(mgr);
        isal_hash_ctx_init(&ctx);
        _sha256_ctx_mgr_submit_base(mgr, &ctx, a, 10, ISAL_HASH_FIRST);
        printf("after FIRST:            status=%d error=%d\n", ctx.status, ctx.error);
        _sha256_ctx_mgr_submit_base(mgr, &ctx, b, 5, (ISAL_HASH_CTX_FLAG) 8); /* rejected: invalid flags */
        printf("after rejected submit:  status=%d error=%d\n", ctx.status, ctx.error);
        _sha256_ctx_mgr_submit_base(mgr, &ctx, b, 5, ISAL_HASH_UPDATE); /* valid */
        printf("after valid UPDATE:     status=%d error=%d total=%llu\n", ctx.status, ctx.error, (unsigned long long) ctx.total_length);
        int e1 = ctx.error;
        _sha256_ctx_mgr_submit_base(mgr, &ctx, b, 0, ISAL_HASH_LAST); /* valid */
        printf("after valid LAST:       status=%d error=%d\n", ctx.status, ctx.error);
        if (e1 != 0 || ctx.error != 0) {
                printf("C11 VIOLATED: a valid call is reported as failed because of the earlier rejection\n");
                return 1;
        }
        printf("ok\n");
        return 0;
}
