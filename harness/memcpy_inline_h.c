/* Proof of the witness contracts the context-layer proofs ASSUME for the copy helpers of
 * include/memcpy_inline.h (C08: no access outside [p, p+n); exact copy / clear).  The helpers are
 * called with n <= 128 by the context layer (n <= block size); that domain is a `requires` of the
 * assumed contract, asserted at every call site.  Source and destination are exact-size objects,
 * so any access beyond n bytes is a failed bounds obligation. */
#include <stdint.h>
#include <stdlib.h>
#include "memcpy_inline.h"
#ifdef VF_WITH_CANARY
#define VF_CANARY() __CPROVER_assert(0, "vf_canary: end of harness reachable")
#else
#define VF_CANARY() ((void) 0)
#endif
/* one proof run per CONSTANT length VF_N in [0,128] (a symbolic length does not terminate in CBMC:
 * measured > 13 min); loop-free after unwinding, complete for that length */
#ifndef VF_N
#error "define VF_N"
#endif
static size_t vf_n(void) { return VF_N; }

#define COPY_HARNESS(NAME, FN)                                                                     \
        void NAME(void)                                                                            \
        {                                                                                          \
                size_t n = vf_n(), k;                                                              \
                uint8_t *src = malloc(n), *dst = malloc(n);                                        \
                __CPROVER_assume(src != 0 && dst != 0 && (k < n || n == 0));                       \
                uint8_t s = n ? src[k] : 0;                                                        \
                FN(dst, src, n);                                                                   \
                __CPROVER_assert(n == 0 || dst[k] == s, "every byte of the destination equals the source byte"); \
                __CPROVER_assert(n == 0 || src[k] == s, "source unmodified");                      \
        }
#define CLR_HARNESS(NAME, FN)                                                                      \
        void NAME(void)                                                                            \
        {                                                                                          \
                size_t n = vf_n(), k;                                                              \
                uint8_t *dst = malloc(n);                                                          \
                __CPROVER_assume(dst != 0 && (k < n || n == 0));                                   \
                FN(dst, n);                                                                        \
                __CPROVER_assert(n == 0 || dst[k] == 0, "every byte of the destination is cleared"); \
        }
COPY_HARNESS(vf_h_memcpy_sse_varlen, memcpy_sse_varlen)
COPY_HARNESS(vf_h_memcpy_sse_fixedlen, memcpy_sse_fixedlen)
CLR_HARNESS(vf_h_memclr_sse_varlen, memclr_sse_varlen)
CLR_HARNESS(vf_h_memclr_sse_fixedlen, memclr_sse_fixedlen)
void vf_h_all(void)
{
        vf_h_memcpy_sse_varlen();
        vf_h_memcpy_sse_fixedlen();
        vf_h_memclr_sse_varlen();
        vf_h_memclr_sse_fixedlen();
        VF_CANARY();
}
