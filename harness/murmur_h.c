/* murmur_h.c - _murmur3_x64_128_block / _murmur3_x64_128_tail of
 * mh_sha1_murmur3_x64_128/murmur3_x64_128_internal.c against Austin Appleby's MurmurHash3_x64_128
 * (reference written from the public-domain algorithm description, NOT from the repository):
 *   body step, tail (1..15 bytes, little-endian packing into k1/k2), finalisation with the length and
 *   fmix64.  The stream length is taken as an UNSIGNED 32-bit value (the property's domain is < 2^32). */
#include <stdint.h>
#include <stdlib.h>
#include "mh_sha1_murmur3_x64_128_internal.h"
#ifdef VF_WITH_CANARY
#define VF_CANARY() __CPROVER_assert(0, "vf_canary: end of harness reachable")
#else
#define VF_CANARY() ((void) 0)
#endif
extern uint64_t g_k1, g_k2;
#define ROTL64(x, r) (((x) << (r)) | ((x) >> (64 - (r))))
#define C1 0x87c37b91114253d5ull
#define C2 0x4cf5ad432745937full
static uint64_t le64(const uint8_t *p)
{
        uint64_t v = 0;
        for (int i = 7; i >= 0; i--) v = (v << 8) | p[i];
        return v;
}
static void ref_step(uint64_t *h1, uint64_t *h2, uint64_t k1, uint64_t k2)
{
        k1 *= C1; k1 = ROTL64(k1, 31); k1 *= C2; *h1 ^= k1;
        *h1 = ROTL64(*h1, 27); *h1 += *h2; *h1 = *h1 * 5 + 0x52dce729;
        k2 *= C2; k2 = ROTL64(k2, 33); k2 *= C1; *h2 ^= k2;
        *h2 = ROTL64(*h2, 31); *h2 += *h1; *h2 = *h2 * 5 + 0x38495ab5;
}
static uint64_t fmix64(uint64_t k)
{
        k ^= k >> 33; k *= 0xff51afd7ed558ccdull; k ^= k >> 33; k *= 0xc4ceb9fe1a85ec53ull; k ^= k >> 33;
        return k;
}
/* body: VF_NB blocks (the loop body is the same code for every block; the count is bounded here) */
#ifndef VF_NB
#define VF_NB 2
#endif
void vf_h_block(void)
{
#ifdef VF_SAFETY
        uint8_t *in = malloc(16 * VF_NB); /* exact-size objects: bounds obligations only */
        uint64_t *dig = malloc(16);
        __CPROVER_assume(in != 0 && dig != 0);
#else
        uint64_t in_[2 * VF_NB + 1], dig[2]; /* locals: the SMT back ends rewrite the multipliers only without heap objects */
        uint8_t *in = (uint8_t *) in_;
#endif
        uint64_t h1 = dig[0], h2 = dig[1];
        _murmur3_x64_128_block(in, VF_NB, (uint32_t *) dig);
        for (unsigned b = 0; b < VF_NB; b++)
                ref_step(&h1, &h2, ((const uint64_t *) in)[2 * b], ((const uint64_t *) in)[2 * b + 1]); /* getblock64 */
#ifndef VF_SAFETY
        __CPROVER_assert(dig[0] == h1 && dig[1] == h2, "murmur body equals the reference for these blocks");
#endif
        VF_CANARY();
}
void vf_h_tail(void)
{
        uint32_t total_len;
        unsigned n = total_len & 15;
#ifdef VF_SAFETY
        uint8_t *tail = malloc(n); /* exactly the bytes that exist */
        uint64_t *dig = malloc(16);
        __CPROVER_assume(tail != 0 && dig != 0);
#else
        uint8_t tail[16];
        uint64_t dig[2];
#endif
        uint64_t h1 = dig[0], h2 = dig[1], k1 = 0, k2 = 0;
        for (unsigned i = 0; i < n; i++) {
                if (i < 8) k1 |= (uint64_t) tail[i] << (8 * i);
                else k2 |= (uint64_t) tail[i] << (8 * (i - 8));
        }
        g_k1 = k1; g_k2 = k2; /* reference packing, compared at the cut-point inside the real function */
        _murmur3_x64_128_tail(tail, total_len, (uint32_t *) dig);
        /* Appleby's switch mixes k2 only for n > 8 and k1 only for n > 0; with k == 0 the mix is 0
         * (0 * c = 0, rotl(0) = 0), so the unconditional form below is the same function */
        k2 *= C2; k2 = ROTL64(k2, 33); k2 *= C1; h2 ^= k2;
        k1 *= C1; k1 = ROTL64(k1, 31); k1 *= C2; h1 ^= k1;
        h1 ^= (uint64_t) total_len; h2 ^= (uint64_t) total_len;
        h1 += h2; h2 += h1; h1 = fmix64(h1); h2 = fmix64(h2); h1 += h2; h2 += h1;
#if !defined(VF_SAFETY) && !defined(VF_CUT_ONLY)
        __CPROVER_assert(dig[0] == h1 && dig[1] == h2, "murmur tail + finalisation equals the reference");
#endif
        VF_CANARY();
}
