/* rolling_lemmas.c - the two induction steps that turn the proved recurrence (DEF, contracts/rolling_prelude.h)
 * into the closed form  H(e) = XOR_{j<w} rol(T1[byte(e-j)], j)  "a fixed function of the last w bytes alone".
 * Code-independent: table values are ARBITRARY 64-bit words u[j] (u[j] stands for T1[byte(e-j)]), the only
 * fact about the tables that is used is T2[x] == rol(T1[x], w) (post-condition of _rolling_hash2_init).
 * Loops are bounded by the window (<= 48) and fully unwound (--unwind 50 --unwinding-assertions).       */
#include <stdint.h>
#ifdef VF_WITH_CANARY
#define VF_CANARY() __CPROVER_assert(0, "vf_canary: end of harness reachable")
#else
#define VF_CANARY() ((void) 0)
#endif
#define ROL(x, n) ((((uint64_t) (x)) << ((n) & 63)) | (((uint64_t) (x)) >> ((64 - (n)) & 63)))

/* closed form over u[0..w-1]: XOR_j rol(u[j], j) */
static uint64_t closed(const uint64_t *u, unsigned w)
{
        uint64_t h = 0;
        for (unsigned j = 0; j < w; j++)
                h ^= ROL(u[j], j);
        return h;
}

/* lemma_reset: the recurrence of _rolling_hash2_reset (g_R[i+1] = rol1(g_R[i]) ^ T1[init[i]], g_R[0] = 0)
 * ends in the closed form of the w init bytes: with v[i] = T1[init[i]], byte(e-j) = init[w-1-j]. */
void lemma_reset(void)
{
        unsigned w;
        uint64_t v[48], u[48], R = 0;
        __CPROVER_assume(w >= 1 && w <= 48);
        for (unsigned i = 0; i < w; i++)
                R = ROL(R, 1) ^ v[i];
        for (unsigned j = 0; j < w; j++)
                u[j] = v[w - 1 - j];
        __CPROVER_assert(R == closed(u, w), "reset recurrence ends in the closed form of the w init bytes");
        VF_CANARY();
}

/* lemma_step: if g_H[p] is the closed form of the window ending at p-1 and DEF(p) holds, then g_H[p+1] is
 * the closed form of the window ending at p.  u[0] = T1[byte(p)], u[j] = T1[byte(p-j)], u[w] = T1[byte(p-w)]. */
void lemma_step(void)
{
        unsigned w;
        uint64_t u[49], prev[48];
        __CPROVER_assume(w >= 1 && w <= 48);
        for (unsigned j = 0; j < w; j++)
                prev[j] = u[j + 1];             /* window ending at p-1 */
        uint64_t Hp = closed(prev, w);
        uint64_t T2old = ROL(u[w], w);         /* T2[byte(p-w)] == rol(T1[byte(p-w)], w) */
        uint64_t Hn = ROL(Hp, 1) ^ u[0] ^ T2old; /* DEF(p) */
        __CPROVER_assert(Hn == closed(u, w), "rolling step preserves the closed form");
        VF_CANARY();
}
