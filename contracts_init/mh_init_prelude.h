/* Contract of the multi-hash init functions (_mh_sha1_init, _mh_sha256_init, _mh_sha1_murmur3_x64_128_init).
 * Taken from the property text (C05 / C10), not from the code: after init the 16 segment chaining values are the
 * FIPS 180-4 initial hash value of SHA-1 (resp. SHA-256), no byte has been consumed (total_length == 0, which also makes the
 * partial buffer empty: its fill is total_length % 1024; its bytes are not constrained - the tail function overwrites what it
 * hashes), and for the stitched variant BOTH 64-bit murmur state words are the
 * full 64-bit seed.  A NULL context is refused without any access.  Ghost witnesses instead of quantifiers:
 * g_i (segment), g_j (digest word) are arbitrary. */
#ifndef VF_MH_INIT_PRELUDE_H
#define VF_MH_INIT_PRELUDE_H
#include <stdint.h>
#include <stddef.h>
uint32_t g_i, g_j;
#if VF_MH_W == 5
#define VF_MH_IV(j) ((j) == 0 ? 0x67452301u : (j) == 1 ? 0xEFCDAB89u : (j) == 2 ? 0x98BADCFEu : (j) == 3 ? 0x10325476u : 0xC3D2E1F0u)
#else
#define VF_MH_IV(j) ((j) == 0 ? 0x6a09e667u : (j) == 1 ? 0xbb67ae85u : (j) == 2 ? 0x3c6ef372u : (j) == 3 ? 0xa54ff53au : \
                     (j) == 4 ? 0x510e527fu : (j) == 5 ? 0x9b05688cu : (j) == 6 ? 0x1f83d9abu : 0x5be0cd19u)
#endif
#ifdef VF_MUR
#define VF_MH_INIT_MUR_ENS                                                                                   \
        __CPROVER_ensures(ctx != NULL ==> (ctx->murmur3_x64_128_digest[0] == (uint32_t) murmur_seed &&       \
                                           ctx->murmur3_x64_128_digest[1] == (uint32_t) (murmur_seed >> 32) && \
                                           ctx->murmur3_x64_128_digest[2] == (uint32_t) murmur_seed &&       \
                                           ctx->murmur3_x64_128_digest[3] == (uint32_t) (murmur_seed >> 32)))
#else
#define VF_MH_INIT_MUR_ENS
#endif
#define VF_C_MH_INIT                                                                                         \
        __CPROVER_requires(ctx == NULL || __CPROVER_is_fresh(ctx, sizeof(*ctx)))                             \
        __CPROVER_requires(g_i < 16u && g_j < VF_MH_W)                                                        \
        __CPROVER_assigns(ctx != NULL : __CPROVER_object_whole(ctx))                                         \
        __CPROVER_ensures((ctx == NULL) == (__CPROVER_return_value != 0))                                    \
        __CPROVER_ensures(ctx == NULL ==> __CPROVER_return_value == VF_MH_ERR_NULL)                          \
        __CPROVER_ensures(ctx != NULL ==> ctx->total_length == 0)                                            \
        __CPROVER_ensures(ctx != NULL ==> ((const uint32_t *) ctx->VF_MH_INTERIM)[g_j * 16u + g_i] == VF_MH_IV(g_j)) \
        VF_MH_INIT_MUR_ENS
#endif
