/* selftest.c - the round-stepper specs (round_specs.h) reproduce the example digests printed in the
 * standards for the one-block message "abc": FIPS 180-4 / NIST examples (SHA-1, SHA-256, SHA-512),
 * RFC 1321 A.5 (MD5), GB/T 32905-2016 A.1 (SM3).  Compile with -DVF_ALG_<X>; exit 0 = agree. */
#include <stdio.h>
#include <string.h>
#include "round_specs.h"
int
main(void)
{
        uint8_t M[S_BLOCK];
        memset(M, 0, sizeof M);
        memcpy(M, "abc", 3);
        M[3] = 0x80;
#if defined(VF_ALG_MD5)
        M[56] = 24;
        S_WORD H[4] = { 0x67452301u, 0xefcdab89u, 0x98badcfeu, 0x10325476u };
        static const S_WORD X[4] = { 0x98500190u, 0xb04fd23cu, 0x7d3f96d6u, 0x727fe128u }; /* 900150983cd24fb0d6963f7d28e17f72 read as LE words */
#elif defined(VF_ALG_SHA1)
        M[63] = 24;
        S_WORD H[5] = { 0x67452301u, 0xefcdab89u, 0x98badcfeu, 0x10325476u, 0xc3d2e1f0u };
        static const S_WORD X[5] = { 0xa9993e36u, 0x4706816au, 0xba3e2571u, 0x7850c26cu, 0x9cd0d89du };
#elif defined(VF_ALG_SHA256)
        M[63] = 24;
        S_WORD H[8] = { 0x6a09e667u, 0xbb67ae85u, 0x3c6ef372u, 0xa54ff53au, 0x510e527fu, 0x9b05688cu, 0x1f83d9abu, 0x5be0cd19u };
        static const S_WORD X[8] = { 0xba7816bfu, 0x8f01cfeau, 0x414140deu, 0x5dae2223u, 0xb00361a3u, 0x96177a9cu, 0xb410ff61u, 0xf20015adu };
#elif defined(VF_ALG_SHA512)
        M[127] = 24;
        S_WORD H[8] = { 0x6a09e667f3bcc908ull, 0xbb67ae8584caa73bull, 0x3c6ef372fe94f82bull, 0xa54ff53a5f1d36f1ull,
                        0x510e527fade682d1ull, 0x9b05688c2b3e6c1full, 0x1f83d9abfb41bd6bull, 0x5be0cd19137e2179ull };
        static const S_WORD X[8] = { 0xddaf35a193617abaull, 0xcc417349ae204131ull, 0x12e6fa4e89a97ea2ull, 0x0a9eeee64b55d39aull,
                                     0x2192992a274fc1a8ull, 0x36ba3c23a3feebbdull, 0x454d4423643ce80eull, 0x2a9ac94fa54ca49full };
#elif defined(VF_ALG_SM3)
        M[63] = 24;
        S_WORD H[8] = { 0x7380166fu, 0x4914b2b9u, 0x172442d7u, 0xda8a0600u, 0xa96f30bcu, 0x163138aau, 0xe38dee4du, 0xb0fb0e4eu };
        static const S_WORD X[8] = { 0x66c7f0f4u, 0x62eeedd9u, 0xd1f2d46bu, 0xdc10e4e2u, 0x4167c487u, 0x5cf2f7a2u, 0x297da02bu, 0x8f4ba8e0u };
#endif
        vf_spec_begin(M, H);
        for (int t = 0; t < S_NR; t++)
                vf_spec_round();
        for (int k = 0; k < S_NS; k++)
                if (S_FINAL(k) != X[k]) {
                        printf("spec mismatch word %d\n", k);
                        return 1;
                }
        return 0;
}
