/* round_specs.h - the five compression functions as ROUND STEPPERS, written from the standards
 * (FIPS 180-4 sec. 6.1.2 / 6.2.2 / 6.4.2, RFC 1321 sec. 3.4, GB/T 32905-2016 sec. 5), not from the
 * repository.  Round constants of SHA-2 and MD5 come from spec/consts_generated.h (derived from
 * their mathematical definitions by spec/gen_consts.py).
 *
 * Interface (selected by -DVF_ALG_SHA1 / _SHA256 / _SHA512 / _MD5 / _SM3):
 *   S_WORD                      word type
 *   S_NS, S_NR, S_BLOCK         number of chaining words, rounds, block bytes
 *   vfS.s[0..S_NS-1]            working variables a, b, c, ... in the standard's order
 *   vfS.W[]                     message schedule (SHA: W_t; MD5: X[k]; SM3: W_j and W'_j in Wb)
 *   vf_spec_begin(M, H)         prepares the schedule from the block and loads the working variables
 *   vf_spec_round()             one round of the standard (round number vfS.t, then t++)
 *   S_FINAL(k)                  k-th chaining word after the block
 */
#include <stdint.h>
#include "consts_generated.h"

#define S_ROTL32(x, n) ((uint32_t) (((uint32_t) (x) << (n)) | ((uint32_t) (x) >> ((32 - (n)) & 31))))
#define S_ROTR32(x, n) ((uint32_t) (((uint32_t) (x) >> (n)) | ((uint32_t) (x) << ((32 - (n)) & 31))))
#define S_ROTR64(x, n) ((uint64_t) (((uint64_t) (x) >> (n)) | ((uint64_t) (x) << ((64 - (n)) & 63))))
/* S_MB(M, t, j): byte j of 32-bit message word t; S_HK(H, k): chaining word k.  The multi-hash block
 * functions override them to select segment g_s of the interleaved block / digest matrix. */
#ifndef S_MB
#define S_MB(M, t, j) ((M)[4 * (t) + (j)])
#endif
#ifndef S_HK
#define S_HK(H, k) ((H)[k])
#endif
#define S_BE32(M, t)                                                                               \
        (((uint32_t) S_MB(M, t, 0) << 24) | ((uint32_t) S_MB(M, t, 1) << 16) |                     \
         ((uint32_t) S_MB(M, t, 2) << 8) | (uint32_t) S_MB(M, t, 3))
#define S_LE32(M, t)                                                                               \
        (((uint32_t) S_MB(M, t, 3) << 24) | ((uint32_t) S_MB(M, t, 2) << 16) |                     \
         ((uint32_t) S_MB(M, t, 1) << 8) | (uint32_t) S_MB(M, t, 0))
#define S_BE64(M, t) (((uint64_t) S_BE32(M, 2 * (t)) << 32) | (uint64_t) S_BE32(M, 2 * (t) + 1))

#if defined(VF_ALG_SHA1)
#define S_WORD uint32_t
#define S_NS 5
#define S_NR 80
#define S_NW 80
#define S_BLOCK 64
#elif defined(VF_ALG_SHA256)
#define S_WORD uint32_t
#define S_NS 8
#define S_NR 64
#define S_NW 64
#define S_BLOCK 64
#elif defined(VF_ALG_SHA512)
#define S_WORD uint64_t
#define S_NS 8
#define S_NR 80
#define S_NW 80
#define S_BLOCK 128
#elif defined(VF_ALG_MD5)
#define S_WORD uint32_t
#define S_NS 4
#define S_NR 64
#define S_NW 16
#define S_BLOCK 64
#elif defined(VF_ALG_SM3)
#define S_WORD uint32_t
#define S_NS 8
#define S_NR 64
#define S_NW 68
#define S_BLOCK 64
#else
#error "round_specs.h: no algorithm selected"
#endif

struct vf_spec {
        S_WORD s[S_NS];
        S_WORD Hin[S_NS];
        S_WORD W[S_NW];
#if defined(VF_ALG_SM3)
        S_WORD Wb[64];
#endif
        int t;
} vfS;

#if defined(VF_ALG_SM3)
#define S_FINAL(k) ((S_WORD) (vfS.Hin[k] ^ vfS.s[k]))
#else
#define S_FINAL(k) ((S_WORD) (vfS.Hin[k] + vfS.s[k]))
#endif

static void
vf_spec_load(const S_WORD *H)
{
        for (int k = 0; k < S_NS; k++) {
                vfS.Hin[k] = S_HK(H, k);
                vfS.s[k] = S_HK(H, k);
        }
        vfS.t = 0;
}

#if defined(VF_ALG_SHA1)
/* FIPS 180-4 sec. 4.1.1, 4.2.1, 6.1.2 */
static void
vf_spec_begin(const uint8_t *M, const S_WORD *H)
{
        for (int t = 0; t < 16; t++)
                vfS.W[t] = S_BE32(M, t);
        for (int t = 16; t < 80; t++)
                vfS.W[t] = S_ROTL32(vfS.W[t - 3] ^ vfS.W[t - 8] ^ vfS.W[t - 14] ^ vfS.W[t - 16], 1);
        vf_spec_load(H);
}
static void
vf_spec_round(void)
{
        int t = vfS.t;
        uint32_t a = vfS.s[0], b = vfS.s[1], c = vfS.s[2], d = vfS.s[3], e = vfS.s[4], f, K, T;
        if (t < 20) {
                f = (b & c) ^ (~b & d); /* Ch */
                K = 0x5a827999u;
        } else if (t < 40) {
                f = b ^ c ^ d; /* Parity */
                K = 0x6ed9eba1u;
        } else if (t < 60) {
                f = (b & c) ^ (b & d) ^ (c & d); /* Maj */
                K = 0x8f1bbcdcu;
        } else {
                f = b ^ c ^ d;
                K = 0xca62c1d6u;
        }
        T = S_ROTL32(a, 5) + f + e + K + vfS.W[t];
        vfS.s[4] = d;
        vfS.s[3] = c;
        vfS.s[2] = S_ROTL32(b, 30);
        vfS.s[1] = a;
        vfS.s[0] = T;
        vfS.t = t + 1;
}

#elif defined(VF_ALG_SHA256)
/* FIPS 180-4 sec. 4.1.2, 4.2.2, 6.2.2 */
#define S_CH(x, y, z) (((x) & (y)) ^ (~(x) & (z)))
#define S_MAJ(x, y, z) (((x) & (y)) ^ ((x) & (z)) ^ ((y) & (z)))
static void
vf_spec_begin(const uint8_t *M, const S_WORD *H)
{
        for (int t = 0; t < 16; t++)
                vfS.W[t] = S_BE32(M, t);
        for (int t = 16; t < 64; t++) {
                uint32_t x = vfS.W[t - 2], y = vfS.W[t - 15];
                vfS.W[t] = (S_ROTR32(x, 17) ^ S_ROTR32(x, 19) ^ (x >> 10)) + vfS.W[t - 7] +
                           (S_ROTR32(y, 7) ^ S_ROTR32(y, 18) ^ (y >> 3)) + vfS.W[t - 16];
        }
        vf_spec_load(H);
}
static void
vf_spec_round(void)
{
        int t = vfS.t;
        uint32_t a = vfS.s[0], b = vfS.s[1], c = vfS.s[2], d = vfS.s[3], e = vfS.s[4], f = vfS.s[5], g = vfS.s[6], h = vfS.s[7];
        uint32_t T1 = h + (S_ROTR32(e, 6) ^ S_ROTR32(e, 11) ^ S_ROTR32(e, 25)) + S_CH(e, f, g) + S_K256[t] + vfS.W[t];
        uint32_t T2 = (S_ROTR32(a, 2) ^ S_ROTR32(a, 13) ^ S_ROTR32(a, 22)) + S_MAJ(a, b, c);
        vfS.s[7] = g;
        vfS.s[6] = f;
        vfS.s[5] = e;
        vfS.s[4] = d + T1;
        vfS.s[3] = c;
        vfS.s[2] = b;
        vfS.s[1] = a;
        vfS.s[0] = T1 + T2;
        vfS.t = t + 1;
}

#elif defined(VF_ALG_SHA512)
/* FIPS 180-4 sec. 4.1.3, 4.2.3, 6.4.2 */
#define S_CH(x, y, z) (((x) & (y)) ^ (~(x) & (z)))
#define S_MAJ(x, y, z) (((x) & (y)) ^ ((x) & (z)) ^ ((y) & (z)))
static void
vf_spec_begin(const uint8_t *M, const S_WORD *H)
{
        for (int t = 0; t < 16; t++)
                vfS.W[t] = S_BE64(M, t);
        for (int t = 16; t < 80; t++) {
                uint64_t x = vfS.W[t - 2], y = vfS.W[t - 15];
                vfS.W[t] = (S_ROTR64(x, 19) ^ S_ROTR64(x, 61) ^ (x >> 6)) + vfS.W[t - 7] +
                           (S_ROTR64(y, 1) ^ S_ROTR64(y, 8) ^ (y >> 7)) + vfS.W[t - 16];
        }
        vf_spec_load(H);
}
static void
vf_spec_round(void)
{
        int t = vfS.t;
        uint64_t a = vfS.s[0], b = vfS.s[1], c = vfS.s[2], d = vfS.s[3], e = vfS.s[4], f = vfS.s[5], g = vfS.s[6], h = vfS.s[7];
        uint64_t T1 = h + (S_ROTR64(e, 14) ^ S_ROTR64(e, 18) ^ S_ROTR64(e, 41)) + S_CH(e, f, g) + S_K512[t] + vfS.W[t];
        uint64_t T2 = (S_ROTR64(a, 28) ^ S_ROTR64(a, 34) ^ S_ROTR64(a, 39)) + S_MAJ(a, b, c);
        vfS.s[7] = g;
        vfS.s[6] = f;
        vfS.s[5] = e;
        vfS.s[4] = d + T1;
        vfS.s[3] = c;
        vfS.s[2] = b;
        vfS.s[1] = a;
        vfS.s[0] = T1 + T2;
        vfS.t = t + 1;
}

#elif defined(VF_ALG_MD5)
/* RFC 1321 sec. 3.4: a = b + ((a + F(b,c,d) + X[k] + T[i]) <<< s), registers rotate after each step */
static const uint8_t S_MD5_S[4][4] = { { 7, 12, 17, 22 }, { 5, 9, 14, 20 }, { 4, 11, 16, 23 }, { 6, 10, 15, 21 } };
static void
vf_spec_begin(const uint8_t *M, const S_WORD *H)
{
        for (int t = 0; t < 16; t++)
                vfS.W[t] = S_LE32(M, t);
        vf_spec_load(H);
}
static void
vf_spec_round(void)
{
        int i = vfS.t, r = i / 16, k;
        uint32_t a = vfS.s[0], b = vfS.s[1], c = vfS.s[2], d = vfS.s[3], f, x;
        if (r == 0) {
                f = (b & c) | (~b & d);
                k = i;
        } else if (r == 1) {
                f = (b & d) | (c & ~d);
                k = (1 + 5 * i) % 16;
        } else if (r == 2) {
                f = b ^ c ^ d;
                k = (5 + 3 * i) % 16;
        } else {
                f = c ^ (b | ~d);
                k = (7 * i) % 16;
        }
        x = a + f + vfS.W[k] + S_T5[i];
        x = b + S_ROTL32(x, S_MD5_S[r][i % 4]);
        vfS.s[0] = d;
        vfS.s[1] = x;
        vfS.s[2] = b;
        vfS.s[3] = c;
        vfS.t = i + 1;
}

#elif defined(VF_ALG_SM3)
/* GB/T 32905-2016 sec. 4.2-4.4, 5.3.2, 5.3.3 */
#define S_P0(x) ((x) ^ S_ROTL32(x, 9) ^ S_ROTL32(x, 17))
#define S_P1(x) ((x) ^ S_ROTL32(x, 15) ^ S_ROTL32(x, 23))
static void
vf_spec_begin(const uint8_t *M, const S_WORD *H)
{
        for (int j = 0; j < 16; j++)
                vfS.W[j] = S_BE32(M, j);
        for (int j = 16; j < 68; j++) {
                uint32_t x = vfS.W[j - 16] ^ vfS.W[j - 9] ^ S_ROTL32(vfS.W[j - 3], 15);
                vfS.W[j] = S_P1(x) ^ S_ROTL32(vfS.W[j - 13], 7) ^ vfS.W[j - 6];
        }
        for (int j = 0; j < 64; j++)
                vfS.Wb[j] = vfS.W[j] ^ vfS.W[j + 4];
        vf_spec_load(H);
}
static void
vf_spec_round(void)
{
        int j = vfS.t;
        uint32_t A = vfS.s[0], B = vfS.s[1], C = vfS.s[2], D = vfS.s[3], E = vfS.s[4], F = vfS.s[5], G = vfS.s[6], H = vfS.s[7];
        uint32_t T = j < 16 ? 0x79cc4519u : 0x7a879d8au;
        uint32_t FF = j < 16 ? (A ^ B ^ C) : ((A & B) | (A & C) | (B & C));
        uint32_t GG = j < 16 ? (E ^ F ^ G) : ((E & F) | (~E & G));
        uint32_t SS1 = S_ROTL32(S_ROTL32(A, 12) + E + S_ROTL32(T, j % 32), 7);
        uint32_t SS2 = SS1 ^ S_ROTL32(A, 12);
        uint32_t TT1 = FF + D + SS2 + vfS.Wb[j];
        uint32_t TT2 = GG + H + SS1 + vfS.W[j];
        vfS.s[3] = C;
        vfS.s[2] = S_ROTL32(B, 9);
        vfS.s[1] = A;
        vfS.s[0] = TT1;
        vfS.s[7] = G;
        vfS.s[6] = S_ROTL32(F, 19);
        vfS.s[5] = E;
        vfS.s[4] = S_P0(TT2);
        vfS.t = j + 1;
}
#endif
