/* SHA-256 compression function written from FIPS 180-4 sec. 4.1.2, 4.2.2, 6.2.2 (not from the repository) */
#include <stdint.h>
#define S_ROTR(x, n) (((x) >> (n)) | ((x) << (32 - (n))))
#define S_CH(x, y, z) (((x) & (y)) ^ (~(x) & (z)))
#define S_MAJ(x, y, z) (((x) & (y)) ^ ((x) & (z)) ^ ((y) & (z)))
#define S_BSIG0(x) (S_ROTR(x, 2) ^ S_ROTR(x, 13) ^ S_ROTR(x, 22))
#define S_BSIG1(x) (S_ROTR(x, 6) ^ S_ROTR(x, 11) ^ S_ROTR(x, 25))
#define S_SSIG0(x) (S_ROTR(x, 7) ^ S_ROTR(x, 18) ^ ((x) >> 3))
#define S_SSIG1(x) (S_ROTR(x, 17) ^ S_ROTR(x, 19) ^ ((x) >> 10))
static const uint32_t S_K[64] = {
        0x428a2f98, 0x71374491, 0xb5c0fbcf, 0xe9b5dba5, 0x3956c25b, 0x59f111f1, 0x923f82a4, 0xab1c5ed5, 0xd807aa98, 0x12835b01, 0x243185be,
        0x550c7dc3, 0x72be5d74, 0x80deb1fe, 0x9bdc06a7, 0xc19bf174, 0xe49b69c1, 0xefbe4786, 0x0fc19dc6, 0x240ca1cc, 0x2de92c6f, 0x4a7484aa,
        0x5cb0a9dc, 0x76f988da, 0x983e5152, 0xa831c66d, 0xb00327c8, 0xbf597fc7, 0xc6e00bf3, 0xd5a79147, 0x06ca6351, 0x14292967, 0x27b70a85,
        0x2e1b2138, 0x4d2c6dfc, 0x53380d13, 0x650a7354, 0x766a0abb, 0x81c2c92e, 0x92722c85, 0xa2bfe8a1, 0xa81a664b, 0xc24b8b70, 0xc76c51a3,
        0xd192e819, 0xd6990624, 0xf40e3585, 0x106aa070, 0x19a4c116, 0x1e376c08, 0x2748774c, 0x34b0bcb5, 0x391c0cb3, 0x4ed8aa4a, 0x5b9cca4f,
        0x682e6ff3, 0x748f82ee, 0x78a5636f, 0x84c87814, 0x8cc70208, 0x90befffa, 0xa4506ceb, 0xbef9a3f7, 0xc67178f2 };
static void spec_sha256_compress(uint32_t H[8], const uint8_t M[64])
{
        uint32_t W[64], a, b, c, d, e, f, g, h;
        for (int t = 0; t < 16; t++)
                W[t] = ((uint32_t) M[4 * t] << 24) | ((uint32_t) M[4 * t + 1] << 16) | ((uint32_t) M[4 * t + 2] << 8) | M[4 * t + 3];
        for (int t = 16; t < 64; t++)
                W[t] = S_SSIG1(W[t - 2]) + W[t - 7] + S_SSIG0(W[t - 15]) + W[t - 16];
        a = H[0]; b = H[1]; c = H[2]; d = H[3]; e = H[4]; f = H[5]; g = H[6]; h = H[7];
        for (int t = 0; t < 64; t++) {
                uint32_t T1 = h + S_BSIG1(e) + S_CH(e, f, g) + S_K[t] + W[t];
                uint32_t T2 = S_BSIG0(a) + S_MAJ(a, b, c);
                h = g; g = f; f = e; e = d + T1; d = c; c = b; b = a; a = T1 + T2;
        }
        H[0] += a; H[1] += b; H[2] += c; H[3] += d; H[4] += e; H[5] += f; H[6] += g; H[7] += h;
}
