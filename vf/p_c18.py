"""C18 - no hidden shared state (restricted: sequential frames + writable-section inventory)."""
import os

from . import asm2c, dispatch, evidence, misc_jobs, p_ctx_common, p_wrap_common, runner
from .cbmc import VERIF


def check(tier, seed, only=None):
    rep = evidence.Report("C18", tier, seed)
    # (1) frame: every function under contract has an assigns clause over caller-owned objects and
    #     ghosts only; a write to any static object is a failed assigns obligation
    p_ctx_common.run_ctx(rep, tier, [
        ("submit", "proto", "reference_loose", "per_param"),
        ("resubmit", "proto", "reference_loose", "per_param"),
        ("flush", "proto", "reference_loose", "per_param"),
    ], only)
    p_wrap_common.run_wrappers(rep, fips=False, legacy=False, only=only)
    # (1b) rolling hash (added after seed C18_c): init / reset / scan loop (thorough: run) with their frames; the harness leaves every
    #      static object of the translation unit arbitrary, so a result that depends on one fails its post-condition
    from . import overlay, rolling
    try:
        rj = [j for j in rolling.jobs(os.path.join(runner.scratch(), "rolling")) if "lemma" not in j.name and "table" not in j.name]
        if tier == "quick":
            rj = [j for j in rj if j.name != "rolling/run"]
        if only:
            rj = [j for j in rj if any(s in j.name for s in only.split(","))]
        rep.add_job_results(runner.run_jobs(rj))
    except overlay.OverlayError as e:
        rep.add_undecided("extraction broke (rolling): %s" % e)
    # (2) the one-time bindings: exactly one store, value a function of CPUID/XCR0 only
    try:
        jobs = [j for j in dispatch.jobs(os.path.join(runner.scratch(), "dispatch")) if "/stable/" in j.name]
    except asm2c.TranslationError as e:
        raise evidence.Undecided("translation broke: %s" % e)
    if only:
        jobs = [j for j in jobs if any(s in j.name for s in only.split(","))]
    rep.add_job_results(runner.run_jobs(jobs))
    rep.default_replays()
    # (3) supporting static fact: writable-section inventory of every object built from the working tree
    inv = misc_jobs.writable_inventory(os.path.join(runner.scratch(), "inventory"))
    known = set(l.strip() for l in open(os.path.join(VERIF, "known_writable_constants.txt")) if l.strip() and not l.startswith("#"))
    unexpected = [u for u in inv["unexpected"] if u.split("(")[0] not in known]
    rep.static_facts.append({"what": "writable-section inventory (nm on objects compiled/assembled from the working tree)",
                             "objects": inv["objects"], "mutable_by_design": len(inv["mutable"]),
                             "constants_in_writable_sections_asm": len(inv["constants_in_writable"]),
                             "constants_in_writable_sections_c": sorted(known), "build_failures": inv["build_failures"][:5]})
    if inv["build_failures"]:
        rep.add_undecided("inventory: %d source file(s) did not build: %s" % (len(inv["build_failures"]), inv["build_failures"][0]))
    for u in unexpected:
        path = os.path.join(rep.replay_dir(), "inventory.txt")
        with open(path, "w") as f:
            f.write("writable static object(s) of library C files that are neither dispatch cells, the self-test verdict,\n"
                    "version stamps nor listed in known_writable_constants.txt:\n" + "\n".join(unexpected) + "\n")
        rep.add_violation("inventory:" + u.split("(")[0], "unexpected writable static object %s" % u, path, False)
    rep.assumptions.append("RESTRICTED: concurrency itself is not modelled; the claim is sequential non-interference (frames) + the absence of "
                           "mutable static storage other than the bindings and the verdict, from which thread-compatibility follows")
    rep.assumptions.append("constant tables placed in writable sections by NASM files (%d symbols) and the C objects of known_writable_constants.txt "
                           "are never written: for C proved function by function (frames), for NASM assumed" % len(inv["constants_in_writable"]))
    return rep.finish(
        "DFCC assigns-clause (frame) obligations of the context layer and the wrappers; translated dispatch resolvers (one store, stable value); nm inventory",
        "frame obligations + dispatch stability obligations; inventory is a supporting static fact")


def replay(path):
    print(open(path).read()[:4000])
    return 0
