"""nasm -E + instruction-by-instruction translation of branch-only NASM routines to C.

Used for the run-time dispatch resolvers (*_dispatch_init, C12/C18) and the FIPS
status routines (C17).  Anything outside the handled instruction / operand forms
raises TranslationError (=> exit 2, never a violation).

What the translation drops: section / alignment / visibility directives, `wrt ..plt`,
data definitions (dq/dd/db/dw) other than the ones named by the caller.
What it keeps: every instruction, in order, with its labels.
"""
import os
import re
import subprocess

from .cbmc import REPO


class TranslationError(Exception):
    pass


REG64 = ["rax", "rbx", "rcx", "rdx", "rsi", "rdi", "r8", "r9", "r10", "r11"]
REG32 = {"eax": "rax", "ebx": "rbx", "ecx": "rcx", "edx": "rdx", "esi": "rsi", "edi": "rdi"}


def nasm_expand(relpath, defines=(), repo=REPO):
    d = os.path.dirname(relpath)
    cmd = ["nasm", "-E", "-f", "elf64", "-I" + os.path.join(repo, "include") + "/", "-I" + os.path.join(repo, d) + "/",
           "-DAS_FEATURE_LEVEL=10", "-DHAVE_AS_KNOWS_AVX512", "-DHAVE_AS_KNOWS_SHANI"]
    cmd += ["-D" + x for x in defines] + [os.path.join(repo, relpath)]
    r = subprocess.run(cmd, capture_output=True, text=True, cwd=repo)
    if r.returncode != 0:
        raise TranslationError("nasm -E failed on %s: %s" % (relpath, r.stderr[-300:]))
    lines = []
    for ln in r.stdout.split("\n"):
        ln = ln.split(";")[0].strip()
        if not ln or ln.startswith("%line"):
            continue
        lines.append(ln)
    return lines


def routines(lines, name_re):
    """label-delimited routines whose entry label matches name_re: name -> list of lines
    (from the entry label to the last instruction before the next global entry / section end)"""
    out = {}
    i = 0
    n = len(lines)
    entries = [k for k, ln in enumerate(lines) if re.match(r"^(\w+):$", ln) and re.match(name_re, ln[:-1])]
    for idx, k in enumerate(entries):
        name = lines[k][:-1]
        end = entries[idx + 1] if idx + 1 < len(entries) else n
        body = []
        for ln in lines[k + 1:end]:
            if ln.startswith("["):
                if re.match(r"\[section \.text\]", ln, re.I):
                    continue
                if re.match(r"\[section", ln, re.I):
                    break
                continue
            body.append(ln)
        out[name] = body
    return out


def imm(s, consts=None):
    s = s.strip()
    try:
        v = eval(s, {"__builtins__": {}}, dict(consts or {}))
        return int(v)
    except Exception:
        raise TranslationError("immediate not understood: %r" % s)


class Translator:
    def __init__(self, symbols, mem_syms, consts=None):
        """symbols: name -> small integer id (targets of lea);
        mem_syms: names of memory cells that may be loaded/stored (C globals of type uint64_t / uint32_t)"""
        self.symbols = symbols
        self.mem = mem_syms
        self.consts = consts or {}

    def reg(self, r):
        r = r.strip().lower()
        if r in REG64:
            return r, 64
        if r in REG32:
            return REG32[r], 32
        return None, 0

    def rd(self, op):
        r, w = self.reg(op)
        if r:
            return ("(uint32_t) R." + r) if w == 32 else ("R." + r), w
        m = re.match(r"^(dword|qword)?\s*\[\s*(?:rel\s+)?(\w+)\s*\]$", op.strip(), re.I)
        if m and m.group(2) in self.mem:
            w = 32 if (m.group(1) or "").lower() == "dword" else 64
            return "vf_load_%s()" % m.group(2), w
        return str(imm(op, self.consts)) + "u", 0

    def wr(self, op, val, w=None):
        r, rw = self.reg(op)
        if r:
            if rw == 32:
                return "R.%s = (uint64_t) (uint32_t) (%s);" % (r, val)  # 32-bit writes zero-extend
            return "R.%s = (uint64_t) (%s);" % (r, val)
        m = re.match(r"^(dword|qword)?\s*\[\s*(?:rel\s+)?(\w+)\s*\]$", op.strip(), re.I)
        if m and m.group(2) in self.mem:
            return "vf_store_%s(%s);" % (m.group(2), val)
        raise TranslationError("destination operand not understood: %r" % op)

    def width(self, a, b):
        ra, wa = self.reg(a)
        rb, wb = self.reg(b)
        if wa:
            return wa
        if wb:
            return wb
        if re.match(r"^dword", a.strip(), re.I) or re.match(r"^dword", b.strip(), re.I):
            return 32
        return 64

    def translate(self, name, body):
        C = ["void %s(void)" % name, "{", "        vf_regs_t R = vf_entry_regs();", "        uint64_t stk[16]; int sp = 0; _Bool zf = 0;"]
        # a label whose only predecessor-by-jump is a conditional jump at the end of the straight-line
        # code that follows it is emitted as do { } while (cond) so that a loop contract can be attached
        spin = {}
        for i, ln in enumerate(body):
            m = re.match(r"^(\w+):$", ln)
            if not m:
                continue
            for j in range(i + 1, len(body)):
                if re.match(r"^\w+:$", body[j]):
                    break
                mj = re.match(r"^(je|jz|jne|jnz|jmp)\s+(\w+)$", body[j])
                if mj:
                    if mj.group(2) == m.group(1) and mj.group(1) != "jmp":
                        others = [k for k, l2 in enumerate(body) if k != j and re.match(r"^(je|jz|jne|jnz|jmp)\s+%s$" % m.group(1), l2)]
                        if not others:
                            spin[i] = (j, mj.group(1))
                    break
        ends = {j: (i, c) for i, (j, c) in spin.items()}
        for idx, ln in enumerate(body):
            if idx in spin:
                C.append("        do VF_LOOP_%s {" % ln[:-1])
                continue
            if idx in ends:
                c = ends[idx][1]
                cond = "zf" if c in ("je", "jz") else "!zf"
                C.append("        VF_SPIN_CHECK(%s);" % cond)
                C.append("        } while (%s);" % cond)
                continue
            m = re.match(r"^(\w+):$", ln)
            if m:
                C.append("L_%s:;" % m.group(1))
                continue
            if getattr(self, "sync_hook", None) and re.search(r"\[", ln):
                C.append("        " + self.sync_hook)
            m = re.match(r"^(lock\s+)?(\w+)\s*(.*)$", ln)
            if not m:
                raise TranslationError("line not understood: %r" % ln)
            lock, op, rest = m.group(1), m.group(2).lower(), m.group(3).strip()
            ops = [x.strip() for x in self.split_ops(rest)] if rest else []
            t = "        "
            if op == "push":
                C.append(t + "stk[sp++] = %s;" % self.rd(ops[0])[0])
            elif op == "pop":
                C.append(t + self.wr(ops[0], "stk[--sp]"))
            elif op == "lea":
                mm = re.match(r"^\[\s*(?:rel\s+)?(\w+)(\s+wrt\s+\.\.plt)?\s*\]$", ops[1], re.I)
                if not mm or mm.group(1) not in self.symbols:
                    raise TranslationError("lea source not a known symbol: %r" % ops[1])
                C.append(t + self.wr(ops[0], "VF_SYM_%s" % mm.group(1)))
            elif op == "mov":
                src, _ = self.rd(ops[1])
                w = self.width(ops[0], ops[1])
                if w == 32:
                    src = "(uint32_t) (%s)" % src
                C.append(t + self.wr(ops[0], src))
            elif op == "xor":
                a, _ = self.rd(ops[0]); b, _ = self.rd(ops[1]); w = self.width(ops[0], ops[1])
                cast = "(uint32_t)" if w == 32 else "(uint64_t)"
                C.append(t + "{ uint64_t v = %s ((%s) ^ (%s)); zf = (v == 0); %s }" % (cast, a, b, self.wr(ops[0], "v")))
            elif op == "and":
                a, _ = self.rd(ops[0]); b, _ = self.rd(ops[1]); w = self.width(ops[0], ops[1])
                cast = "(uint32_t)" if w == 32 else "(uint64_t)"
                C.append(t + "{ uint64_t v = %s ((%s) & (%s)); zf = (v == 0); %s }" % (cast, a, b, self.wr(ops[0], "v")))
            elif op == "test":
                a, _ = self.rd(ops[0]); b, _ = self.rd(ops[1]); w = self.width(ops[0], ops[1])
                cast = "(uint32_t)" if w == 32 else "(uint64_t)"
                C.append(t + "zf = (%s ((%s) & (%s))) == 0;" % (cast, a, b))
            elif op == "cmp":
                a, _ = self.rd(ops[0]); b, _ = self.rd(ops[1]); w = self.width(ops[0], ops[1])
                cast = "(uint32_t)" if w == 32 else "(uint64_t)"
                C.append(t + "zf = (%s (%s)) == (%s (%s));" % (cast, a, cast, b))
            elif op in ("je", "jz"):
                C.append(t + "if (zf) goto L_%s;" % ops[0])
            elif op in ("jne", "jnz"):
                C.append(t + "if (!zf) goto L_%s;" % ops[0])
            elif op == "jmp":
                C.append(t + "goto L_%s;" % ops[0])
            elif op == "cmove":
                C.append(t + "if (zf) { %s }" % self.wr(ops[0], self.rd(ops[1])[0]))
            elif op == "cmovne":
                C.append(t + "if (!zf) { %s }" % self.wr(ops[0], self.rd(ops[1])[0]))
            elif op == "cpuid":
                C.append(t + "vf_cpuid(&R);")
            elif op == "xgetbv":
                C.append(t + "vf_xgetbv(&R);")
            elif op == "pause":
                C.append(t + "vf_pause();")
            elif op == "cmpxchg":
                if not lock:
                    raise TranslationError("cmpxchg without lock prefix")
                mm = re.match(r"^(dword|qword)?\s*\[\s*(?:rel\s+)?(\w+)\s*\]$", ops[0], re.I)
                if not mm or mm.group(2) not in self.mem:
                    raise TranslationError("cmpxchg destination: %r" % ops[0])
                C.append(t + "{ uint32_t old_ = (uint32_t) R.rax; zf = vf_cmpxchg_%s(&old_, %s); R.rax = old_; }"
                         % (mm.group(2), self.rd(ops[1])[0]))
            elif op == "ret":
                C.append(t + "vf_ret(sp, &R); return;")
            elif op in ("endbranch", "endbr64", "align", "nop"):
                continue
            elif op == "times" and rest.rstrip().endswith("nop"):
                continue  # alignment padding
            elif op in ("dq", "dd", "dw", "db"):
                continue
            else:
                raise TranslationError("unhandled mnemonic %r in %s: %r" % (op, name, ln))
        C.append("}")
        return "\n".join(C)

    @staticmethod
    def split_ops(s):
        out, depth, cur = [], 0, ""
        for ch in s:
            if ch in "([":
                depth += 1
            elif ch in ")]":
                depth -= 1
            if ch == "," and depth == 0:
                out.append(cur)
                cur = ""
            else:
                cur += ch
        if cur.strip():
            out.append(cur)
        return out
