"""Shared driver for the properties decided on the context layer (C01, C06, C11, C15)."""
import os

from . import ctxlayer, evidence, overlay, runner
from .cbmc import REPO

ASM_MGR_ASSUMPTION = (
    "ASSUMED (NASM, out of CBMC's reach): the lane-manager entry points {submit,flush} of every family satisfy "
    "the contract in contracts/ctx_prelude.h (returns NULL, the submitted job or a job it held; a returned job "
    "is COMPLETED with digest = fold of the standard compression over exactly job.len blocks at job.buffer; "
    "it touches only its own state, job.status and job.result_digest; NULL from flush iff it holds no job)"
)


def run_ctx(rep, tier, wanted, only=None, leaf_all=True):
    """wanted: list of (role, aspect, mode_quick, mode_thorough).  Returns CtxPlan."""
    try:
        plan = ctxlayer.CtxPlan(os.path.join(runner.scratch(), "ctx"))
    except overlay.OverlayError as e:
        raise evidence.Undecided("extraction broke: %s" % e)
    jobs = []
    full = os.environ.get("VERIF_FULL", "") != ""
    for role, aspect, mq, mt in wanted:
        mode = "all" if full else (mq if tier == "quick" else mt)
        chosen, transferred = plan.select(role, mode)
        for inst in chosen:
            j = plan.job(inst, role, aspect)
            if only and not any(s in j.name for s in only.split(",")):
                continue
            jobs.append(j)
        for k, v in sorted(transferred.items()):
            rep.transferred.append(
                {"function": role, "aspect": aspect, "instance": "%s_%s" % k, "proved_instance": "%s_%s" % v,
                 "why": "token-identical after renaming algorithm/family identifiers"
                        + ("" if mode == "per_param" else " (parameter macros may differ: proved per parameter set in the thorough tier)")}
            )
    names = set()
    uniq = []
    for j in jobs:
        if j.name not in names:
            names.add(j.name)
            uniq.append(j)

    def prog(job, r):
        print("  [%s] %-44s %5d/%-5d %6.0fs %s %s" % (
            r["status"], job.name, r["discharged"], r["obligations"], r["solver_s"],
            "(cached)" if r.get("cached") else "", r["reason"][:160]), flush=True)

    res = runner.run_jobs(uniq, prog)
    rep.add_job_results(res)
    rep.assumptions.append(ASM_MGR_ASSUMPTION)
    rep.assumptions.append(
        "ASSUMED here, proved under C08: memcpy_sse_varlen/memcpy_sse_fixedlen copy nbytes<=2*BLOCK bytes and write "
        "nothing else (witness form)")
    rep.assumptions.append(
        "API rule used as precondition: the caller does not touch a context or its buffer while its job is in "
        "flight; buffer holds len readable bytes; total length < 2^61 bytes")
    rep.assumed_contracts.append(
        {"symbols": sorted(set(f["p"]["VF_MGR_SUBMIT"] for f in plan.files.values())
                           | set(f["p"]["VF_MGR_FLUSH"] for f in plan.files.values())),
         "why_unreachable": "NASM (C for sha512 sb_sse4, whose own proof is listed separately)",
         "contract": "contracts/ctx_prelude.h VF_MGR_SUBMIT / VF_MGR_FLUSH"})
    return plan


CHECKER = ("goto-cc --function <harness> <annotated copy of /repo file>; goto-instrument --dfcc <harness> "
           "--enforce-contract <fn> --replace-call-with-contract <callees> --apply-loop-contracts; "
           "cbmc --bounds-check --pointer-check --pointer-overflow-check --unwind 24 --unwinding-assertions "
           "--sat-solver cadical")
