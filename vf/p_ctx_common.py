"""Shared driver for the properties decided on the context layer (C01, C06, C11, C15)."""
import os

from . import ctxlayer, evidence, overlay, runner
from .cbmc import REPO

ASM_MGR_ASSUMPTION = (
    "ASSUMED (NASM, out of CBMC's reach): the lane-manager entry points {submit,flush} of every family satisfy "
    "the contract in contracts/ctx_prelude.h (returns NULL, the submitted job or a job it held; a returned job "
    "is COMPLETED with digest = fold of the standard compression over exactly job.len blocks at job.buffer; "
    "it touches only its own state, job.status and job.result_digest; NULL from flush iff it holds no job)"
)


def base_jobs(tier, roles, compress_quick=(), compress_thorough=()):
    """jobs of the synchronous C family (*_ctx_base.c): contracts of init/update/final/submit (vf/ctxbase.py) and,
    for C01, the compression functions against the standards (vf/compress.py).
    quick: all five files except X_update of the four non-sha256 files and sha512's X_final (thorough); compression functions: see callers."""
    from . import compress, ctxbase

    def make(scratch):
        full = tier != "quick" or os.environ.get("VERIF_FULL", "") != ""
        # quick: every role for the sha256 file; for the other four files everything except X_update (the most expensive
        # job, same shape) - so that X_final (padding, length field) and the submit protocol are proved for all five
        js = [j for j in ctxbase.jobs(os.path.join(scratch, "ctxbase"), None) if j.meta["role"] in roles
              and (full or j.meta["role"] != "update" or "/sha256/" in j.name)
              and (full or j.name != "ctxbase/sha512/final")]  # 128-byte blocks: about 1000 s, thorough tier
        keys = list(compress_thorough if full else compress_quick)
        if keys:
            js += compress.jobs(os.path.join(scratch, "compress"), keys)
        return js
    return make


BASE_NOTE = ("base family (*_mb/*_ctx_base.c, the binding chosen when no SIMD level is usable): synchronous, no lane manager; "
             "contracts in contracts/ctxbase_prelude.h; quick tier proves all five files except X_update of sha1/sha512/md5/sm3 and X_final of sha512 (thorough)")


def run_ctx(rep, tier, wanted, only=None, leaf_all=True, extra=None):
    """wanted: list of (role, aspect, mode_quick, mode_thorough).  Returns CtxPlan.
    extra: function(scratch dir) -> further jobs to run in the same pool."""
    try:
        plan = ctxlayer.CtxPlan(os.path.join(runner.scratch(), "ctx"))
    except overlay.OverlayError as e:
        raise evidence.Undecided("extraction broke: %s" % e)
    jobs = []
    full = os.environ.get("VERIF_FULL", "") != ""
    for role, aspect, mq, mt in wanted:
        mode = "all" if full else (mq if tier == "quick" else mt)
        chosen, transferred = plan.select(role, mode)
        for inst in chosen:
            j = plan.job(inst, role, aspect)
            if only and not any(s in j.name for s in only.split(",")):
                continue
            jobs.append(j)
        for k, v in sorted(transferred.items()):
            rep.transferred.append(
                {"function": role, "aspect": aspect, "instance": "%s_%s" % k, "proved_instance": "%s_%s" % v,
                 "why": "token-identical after renaming algorithm/family identifiers"
                        + ("" if mode == "per_param" else (" (parameter macros may differ: proved per parameter set in the thorough tier)" if aspect != "tape" else
                                                           " (parameter macros may differ; the tape aspect of the other parameter sets is not proved: memory, DESIGN.md sec. 8)"))}
            )
    if extra:
        try:
            for j in extra(runner.scratch()):
                if only and not any(s in j.name for s in only.split(",")):
                    continue
                jobs.append(j)
        except overlay.OverlayError as e:
            raise evidence.Undecided("extraction broke: %s" % e)
        rep.notes.append(BASE_NOTE)
    names = set()
    uniq = []
    for j in jobs:
        if j.name not in names:
            names.add(j.name)
            uniq.append(j)

    def prog(job, r):
        print("  [%s] %-44s %5d/%-5d %6.0fs %s %s" % (
            r["status"], job.name, r["discharged"], r["obligations"], r["solver_s"],
            "(cached)" if r.get("cached") else "", r["reason"][:160]), flush=True)

    res = runner.run_jobs(uniq, prog)
    rep.add_job_results(res)
    rep.assumptions.append(ASM_MGR_ASSUMPTION)
    rep.assumptions.append(
        "ASSUMED here, proved under C08: memcpy_sse_varlen/memcpy_sse_fixedlen copy nbytes<=2*BLOCK bytes and write "
        "nothing else (witness form)")
    rep.assumptions.append(
        "API rule used as precondition: the caller does not touch a context or its buffer while its job is in "
        "flight; buffer holds len readable bytes; total length < 2^61 bytes")
    rep.assumed_contracts.append(
        {"symbols": sorted(set(f["p"]["VF_MGR_SUBMIT"] for f in plan.files.values())
                           | set(f["p"]["VF_MGR_FLUSH"] for f in plan.files.values())),
         "why_unreachable": "NASM (C for sha512 sb_sse4, whose own proof is listed separately)",
         "contract": "contracts/ctx_prelude.h VF_MGR_SUBMIT / VF_MGR_FLUSH"})
    return plan


CHECKER = ("goto-cc --function <harness> <annotated copy of /repo file>; goto-instrument --dfcc <harness> "
           "--enforce-contract <fn> --replace-call-with-contract <callees> --apply-loop-contracts; "
           "cbmc --bounds-check --pointer-check --pointer-overflow-check --unwind 24 --unwinding-assertions "
           "--sat-solver cadical")


def add_mgr_bounded(rep, tier, seed):
    """bounded native check of the ASSUMED lane-manager contract on the real assembly of every family"""
    from . import native
    try:
        ops, maxblk = (2000, 4) if tier == "quick" else (30000, 12)
        d = native.mgr_diff(os.path.join(runner.scratch(), "native_mgr"), ops, maxblk, rep.seed)
        rep.bounded.append({"what": "lane managers {submit,flush} of all %d families on the real assembly: returned job was held, digest = fold of the "
                                    "standard compression (reference from FIPS 180-4 / RFC 1321 / GB/T 32905) over exactly job.len blocks, flush NULL iff "
                                    "empty, job fields and input untouched, reads confined (guard pages)" % d["families"],
                            "label": "bounded", "bound": "%d random operations per family, job length 1..%d blocks (occasionally x4)" % (ops, maxblk),
                            "evaluations": d["calls"], "distinct_nontrivial": d["cases"], "agree": d["ok"], "cmd": d["cmd"]})
        if not d["ok"]:
            path = os.path.join(rep.replay_dir(), "mgr_diff.txt")
            with open(path, "w") as f:
                f.write("native/mgr_diff_tmpl.c on the real lane managers built from /repo\n$ " + d["cmd"] + "\n" + d["text"])
            line = [l for l in d["text"].split("\n") if l.startswith("CONTRACT")] or [d["text"][-200:]]
            rep.add_violation("native/mgr_diff:lane_manager:contract", "assumed lane-manager contract violated on the real code: " + line[0][:200], path, True)
    except Exception as e:
        rep.add_undecided("native lane-manager check could not be built/run: %s" % e)


def add_base_bounded(rep, tier, seed):
    """bounded native end-to-end check of the portable C family at -O1 and -O2"""
    from . import native
    try:
        lmax, reps = (700, 2) if tier == "quick" else (4000, 4)
        d = native.base_diff(os.path.join(runner.scratch(), "native_base"), lmax, reps, rep.seed)
        rep.bounded.append({"what": "the five *_ctx_base.c files compiled with gcc -O1 and -O2, end to end through _X_ctx_mgr_submit_base (ENTIRE and random "
                                    "FIRST/UPDATE/LAST segmentations incl. empty segments): digest == standard padding + round-stepper spec; guards the trusted-base "
                                    "assumption on type-punned stores (cf. fix 1a3b4e2)",
                            "label": "bounded", "bound": "every length 0..%d, %d repetitions, per algorithm and optimisation level" % (lmax, reps),
                            "evaluations": d["calls"], "distinct_nontrivial": d["cases"], "agree": d["ok"], "cmd": d["cmd"]})
        if not d["ok"]:
            path = os.path.join(rep.replay_dir(), "base_diff.txt")
            with open(path, "w") as f:
                f.write("native/base_diff.c on the real code from /repo\n$ " + d["cmd"] + "\n" + d["text"])
            rep.add_violation("native/base_diff:base_family:end_to_end", "bounded end-to-end check, real code disagrees with the standard: " + d["text"].split("\n")[0][:220], path, True)
    except Exception as e:
        rep.add_undecided("native base-family check could not be built/run: %s" % e)
