"""C12 / C18: every *_dispatch_init routine of every *_multibinary*.asm, translated to C on
each run (vf/asm2c.py) and proved for ALL values of the symbolic CPUID/XCR0 words."""
import glob
import os
import re

from . import asm2c
from .cbmc import REPO, VERIF, Job

LEVELS = [
    # longest suffix first
    ("vaes_avx512_nt", "VF_VAES512", "vaes_avx512"), ("vaes_avx512", "VF_VAES512", "vaes_avx512"),
    ("avx512_ni", "VF_AVX512_NI", "avx512_ni"), ("sse_ni", "VF_SSE_NI", "sse_ni"),
    ("avx_gen4_nt", "VF_AVX2", "avx_gen4"), ("avx_gen2_nt", "VF_AVX", "avx_gen2"),
    ("avx_gen4", "VF_AVX2", "avx_gen4"), ("avx_gen2", "VF_AVX", "avx_gen2"),
    ("sse_nt", "VF_SSE", "sse"), ("avx512", "VF_AVX512", "avx512"), ("sb_sse4", "VF_SSE", "sb_sse4"),
    ("vaes", "VF_VAES512", "vaes"), ("avx2", "VF_AVX2", "avx2"), ("avx", "VF_AVX", "avx"), ("sse", "VF_SSE", "sse"),
    ("base", "VF_BASE", "base"), ("x4", "VF_SSE", "x4"), ("x8", "VF_AVX", "x8"),
    ("00", "VF_SSE", "00"), ("01", "VF_SSE", "01"), ("02", "VF_AVX", "02"), ("04", "VF_AVX2", "04"), ("06", "VF_AVX512", "06"),
]
# The table "symbol suffix -> ISA level the body needs" is an ASSUMPTION of C12 (naming
# convention of the repository; cross-checked against the instructions actually present by the
# disassembly scan in the thorough tier).

# entry points of one file that operate on one shared object must choose the same family
GROUPS = {
    "sha1_mb/sha1_multibinary.asm": "all", "sha256_mb/sha256_multibinary.asm": "all",
    "sha512_mb/sha512_multibinary.asm": "all", "md5_mb/md5_multibinary.asm": "all",
    "sm3_mb/sm3_multibinary.asm": "all",
    "aes/gcm_multibinary.asm": "keysize", "aes/gcm_multibinary_nt.asm": "keysize",
    "mh_sha1/mh_sha1_multibinary.asm": "all", "mh_sha256/mh_sha256_multibinary.asm": "all",
    "mh_sha1_murmur3_x64_128/mh_sha1_murmur3_x64_128_multibinary.asm": "all",
}


def level_of(sym):
    for suf, lvl, fam in LEVELS:
        if sym.endswith("_" + suf):
            return lvl, fam
    raise asm2c.TranslationError("implementation symbol %s: unknown family suffix" % sym)


def files(repo=REPO):
    return sorted(os.path.relpath(p, repo) for p in glob.glob(os.path.join(repo, "*", "*_multibinary*.asm")))


def build(relpath, workdir, repo=REPO):
    """returns dict(path=<C file>, routines=[...], harnesses=[...], sha256=...)"""
    lines = asm2c.nasm_expand(relpath, repo=repo)
    rts = asm2c.routines(lines, r"^\w+_dispatch_init$")
    if not rts:
        raise asm2c.TranslationError("%s: no *_dispatch_init routine found" % relpath)
    syms = {}
    for name, body in rts.items():
        for ln in body:
            m = re.match(r"^lea\s+\w+\s*,\s*\[\s*(?:rel\s+)?(\w+)", ln, re.I)
            if m:
                syms.setdefault(m.group(1), len(syms) + 1)
    fams = sorted(set(level_of(s)[1] for s in syms))
    out = ['#include "dispatch_model.h"', "/* translated from %s by vf/asm2c.py: every instruction, in order */" % relpath]
    for s, i in syms.items():
        out.append("#define VF_SYM_%s %du" % (s, i))
    out.append("static int vf_level(uint64_t sym) { switch (sym) {")
    for s, i in syms.items():
        out.append("  case %du: return %s; /* %s */" % (i, level_of(s)[0], s))
    out.append("  } return -1; }")
    out.append("static int vf_family(uint64_t sym) { switch (sym) {")
    for s, i in syms.items():
        out.append("  case %du: return %d; /* %s */" % (i, fams.index(level_of(s)[1]), level_of(s)[1]))
    out.append("  } return -1; }")
    entries = []
    defaults = {}
    for name, body in rts.items():
        entry = name[: -len("_dispatch_init")]
        cell = entry + "_dispatched"
        cands = []
        for ln in body:
            m = re.match(r"^lea\s+\w+\s*,\s*\[\s*(?:rel\s+)?(\w+)", ln, re.I)
            if m:
                cands.append(m.group(1))
        if not cands:
            raise asm2c.TranslationError("%s: no candidate implementation" % name)
        defaults[entry] = cands[0]
        out.append("static void vf_store_%s(uint64_t v) { g_stores++; g_chosen = v; }" % cell)
        tr = asm2c.Translator(syms, {cell})
        out.append(tr.translate(name, body))
        out.append("static int vf_cand_%s(uint64_t v) { return %s; }" % (entry, " || ".join("v == VF_SYM_%s" % c for c in cands) or "0"))
        entries.append(entry)
    # one harness per routine
    for e in entries:
        out.append("""
void vf_h_%(e)s(void)
{
        __CPROVER_assume(VF_CPU_CONSISTENT);
        g_stores = 0; g_ud = 0; g_unbalanced = 0;
        %(e)s_dispatch_init();
        __CPROVER_assert(g_stores == 1, "exactly one store to %(e)s_dispatched");
        __CPROVER_assert(vf_cand_%(e)s(g_chosen), "bound to one of the routine's candidate implementations");
        __CPROVER_assert(!g_ud, "no XGETBV executed with OSXSAVE clear");
        __CPROVER_assert(!g_unbalanced, "stack balanced at ret");
        /* the routine's default candidate (first lea) is the library's documented minimum requirement for
         * this entry point (C base code for the hashes, the SSE/AES-NI version for AES): only upgrades need proof */
        __CPROVER_assert(g_chosen == VF_SYM_%(d)s || vf_have(vf_level(g_chosen)), "ISA level needed by the bound implementation is advertised and OS-enabled");
        VF_CANARY();
}""" % {"e": e, "d": defaults[e]})
    # determinism / stability: the stored value is a function of CPUID/XCR0 only (two runs with
    # different entry registers and different nondeterministic CPUID filler agree)
    for e in entries:
        out.append("""
void vf_h2_%(e)s(void)
{
        __CPROVER_assume(VF_CPU_CONSISTENT);
        g_stores = 0; g_ud = 0; g_unbalanced = 0;
        %(e)s_dispatch_init();
        uint64_t first = g_chosen;
        %(e)s_dispatch_init();
        __CPROVER_assert(g_chosen == first, "binding is a function of CPUID/XCR0 only (racing first calls store equal values)");
        VF_CANARY();
}""" % {"e": e})
    return {"text": "\n".join(out), "entries": entries, "syms": syms, "fams": fams}


def group_harness(builds):
    """builds: list of (relpath, build dict) sharing objects; emits pairwise family equality"""
    out = []
    for rel, b in builds:
        mode = GROUPS.get(rel)
        if not mode:
            continue
        groups = {}
        for e in b["entries"]:
            key = "all"
            if mode == "keysize":
                m = re.search(r"(128|256)", e)
                key = m.group(1) if m else "all"
            groups.setdefault(key, []).append(e)
        for key, es in groups.items():
            if len(es) < 2:
                continue
            body = ["void vf_hg_%s_%s(void)\n{" % (re.sub(r"\W", "_", rel), key), "        __CPROVER_assume(VF_CPU_CONSISTENT);", "        g_stores = 0; g_ud = 0; g_unbalanced = 0;"]
            body.append("        %s_dispatch_init(); int fam0 = vf_family(g_chosen);" % es[0])
            for e in es[1:]:
                body.append("        %s_dispatch_init();" % e)
                body.append('        __CPROVER_assert(vf_family(g_chosen) == fam0, "%s binds to the same family as %s");' % (e, es[0]))
            body.append("        VF_CANARY();\n}")
            out.append(("vf_hg_%s_%s" % (re.sub(r"\W", "_", rel), key), "\n".join(body)))
    return out


CANARY = """
#ifdef VF_WITH_CANARY
#define VF_CANARY() __CPROVER_assert(0, "vf_canary: end of harness reachable")
#else
#define VF_CANARY() ((void) 0)
#endif
"""


def jobs(workdir, repo=REPO):
    os.makedirs(workdir, exist_ok=True)
    js = []
    import hashlib
    for rel in files(repo):
        b = build(rel, workdir, repo)
        gh = group_harness([(rel, b)])
        text = CANARY + b["text"] + "\n" + "\n".join(t for _, t in gh) + "\n"
        path = os.path.join(workdir, rel.replace("/", "_") + ".c")
        with open(path, "w") as f:
            f.write(text)
        sha = hashlib.sha256(open(os.path.join(repo, rel), "rb").read()).hexdigest()
        inc = [os.path.join(VERIF, "contracts")]
        for e in b["entries"]:
            for pre in ("vf_h_", "vf_h2_"):
                js.append(Job("dispatch/%s/%s%s" % (rel, "" if pre == "vf_h_" else "stable/", e), [path], entry=pre + e,
                              includes=inc, unwind=4, timeout=300, checks=["--bounds-check", "--pointer-check"], nondet_static=True,
                              meta={"file": rel, "sha256": sha, "aspect": "dispatch", "cost": 1}))
        for name, _ in gh:
            js.append(Job("dispatch/%s/group/%s" % (rel, name), [path], entry=name, includes=inc, unwind=4, timeout=300,
                          checks=["--bounds-check", "--pointer-check"], nondet_static=True,
                          meta={"file": rel, "sha256": sha, "aspect": "dispatch-group", "cost": 1}))
    return js


# ---------------------------------------------------------------------------
# Native replay of a counterexample CPU on the REAL resolver (hook ISAL_CRYPTO_VERIF)
# ---------------------------------------------------------------------------
import json
import subprocess

REPLAY_C = r"""
/* generated by vf/dispatch.py: replays a verifier counterexample (a CPUID/XCR0 vector) on the
 * real %(entry)s_dispatch_init assembled from /repo with -DISAL_CRYPTO_VERIF */
#include <stdio.h>
#include <stdint.h>
#include <string.h>
static const uint32_t c1a = %(c1a)uu, c1c = %(c1c)uu, c7b = %(c7b)uu, c7c = %(c7c)uu, c7d = %(c7d)uu, xcr0 = %(xcr0)uu;
static int ud;
void isal_verif_cpuid(uint32_t r[4])
{
        uint32_t leaf = r[0], sub = r[2];
        if (leaf == 1) { r[0] = c1a; r[1] = 0; r[2] = c1c; r[3] = 0; }
        else if (leaf == 7 && sub == 0) { r[0] = 0; r[1] = c7b; r[2] = c7c; r[3] = c7d; }
        else { r[0] = r[1] = r[2] = r[3] = 0; }
}
void isal_verif_xgetbv(uint32_t r[4])
{
        if (!(c1c & (1u << 27))) ud = 1;
        r[0] = xcr0; r[3] = 0;
}
%(stubs)s
extern void %(entry)s_dispatch_init(void);
extern void *%(entry)s_dispatched;
#define G1 ((1u << 16) | (1u << 17) | (1u << 28) | (1u << 30) | (1u << 31))
static int have(int level)
{
        int sse = (c1c >> 19) & 1, avx = (c1c & (1u << 27)) && (c1c & (1u << 28)) && (xcr0 & 6) == 6;
        int avx2 = avx && (c7b & (1u << 5)), a512 = avx2 && (c7b & G1) == G1 && (xcr0 & 0xe0) == 0xe0;
        int vaes = a512 && (c7c & (1u << 9)) && (c7c & (1u << 10)), sha = (c7b >> 29) & 1;
        switch (level) { case 0: return 1; case 1: return sse; case 2: return avx; case 3: return avx2; case 4: return a512;
                         case 5: return vaes; case 6: return sse && sha; case 7: return a512 && sha; }
        return 0;
}
int main(void)
{
        static const struct { const char *name; void *addr; int level; } cand[] = { %(table)s };
        %(entry)s_dispatch_init();
        void *b = %(entry)s_dispatched;
        printf("cpuid(1).ecx=%%#x cpuid(7).ebx=%%#x cpuid(7).ecx=%%#x xcr0=%%#x\n", c1c, c7b, c7c, xcr0);
        for (unsigned i = 0; i < sizeof cand / sizeof cand[0]; i++)
                if (cand[i].addr == b) {
                        int ok = (i == 0) || have(cand[i].level);
                        printf("%(entry)s bound to %%s (ISA level %%d): %%s\n", cand[i].name, cand[i].level,
                               ok ? "executable on this machine" : "NOT executable on this machine");
                        if (ud) printf("XGETBV executed with OSXSAVE clear\n");
                        return (ok && !ud) ? 0 : 1;
                }
        printf("bound to an unknown address\n");
        return 1;
}
"""

LVLNUM = {"VF_BASE": 0, "VF_SSE": 1, "VF_AVX": 2, "VF_AVX2": 3, "VF_AVX512": 4, "VF_VAES512": 5, "VF_SSE_NI": 6, "VF_AVX512_NI": 7}


def native_replay(rel, entry, vec, outbase, repo=REPO):
    """vec: dict c1a,c1c,c7b,c7c,c7d,xcr0.  Returns (path of replay dir file, violated: bool, text)"""
    lines = asm2c.nasm_expand(rel, repo=repo)
    rts = asm2c.routines(lines, r"^" + re.escape(entry) + r"_dispatch_init$")
    body = rts[entry + "_dispatch_init"]
    cands = []
    allsyms = set()
    for ln in lines:
        m = re.match(r"^lea\s+\w+\s*,\s*\[\s*(?:rel\s+)?(\w+)", ln, re.I)
        if m:
            allsyms.add(m.group(1))
    for ln in body:
        m = re.match(r"^lea\s+\w+\s*,\s*\[\s*(?:rel\s+)?(\w+)", ln, re.I)
        if m and m.group(1) not in cands:
            cands.append(m.group(1))
    stubs = "\n".join("void %s(void) {}" % s for s in sorted(allsyms))
    table = ", ".join('{ "%s", (void *) %s, %d }' % (s, s, LVLNUM[level_of(s)[0]]) for s in cands)
    d = dict(vec)
    d.update(entry=entry, stubs=stubs, table=table)
    os.makedirs(outbase, exist_ok=True)
    cpath = os.path.join(outbase, "replay.c")
    with open(cpath, "w") as f:
        f.write(REPLAY_C % d)
    obj = os.path.join(outbase, "hooked.o")
    exe = os.path.join(outbase, "replay")
    cmd1 = ["nasm", "-f", "elf64", "-I" + os.path.join(repo, "include") + "/", "-I" + os.path.join(repo, os.path.dirname(rel)) + "/",
            "-DAS_FEATURE_LEVEL=10", "-DHAVE_AS_KNOWS_AVX512", "-DHAVE_AS_KNOWS_SHANI", "-DISAL_CRYPTO_VERIF",
            os.path.join(repo, rel), "-o", obj]
    r1 = subprocess.run(cmd1, capture_output=True, text=True)
    r2 = subprocess.run(["gcc", "-O0", "-no-pie", cpath, obj, "-o", exe], capture_output=True, text=True)
    if r1.returncode or r2.returncode:
        return None, False, "replay build failed: " + (r1.stderr + r2.stderr)[-400:]
    r3 = subprocess.run([exe], capture_output=True, text=True, timeout=20)
    with open(os.path.join(outbase, "replay.txt"), "w") as f:
        f.write("$ " + " ".join(cmd1) + "\n$ gcc -O0 -no-pie replay.c hooked.o -o replay && ./replay\n" + r3.stdout + "exit=%d\n" % r3.returncode)
    return os.path.join(outbase, "replay.txt"), r3.returncode != 0, r3.stdout


def vector_from_trace(trace):
    vals = {}
    for s in trace or []:
        if s.get("stepType") == "assignment" and s.get("lhs") in ("g_c1a", "g_c1c", "g_c7b", "g_c7c", "g_c7d", "g_xcr0"):
            try:
                vals[s["lhs"][2:]] = int(str(s.get("value", {}).get("data", "0")).rstrip("ul"))
            except ValueError:
                pass
    for k in ("c1a", "c1c", "c7b", "c7c", "c7d", "xcr0"):
        vals.setdefault(k, 0)
    return vals
