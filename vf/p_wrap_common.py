"""Shared driver for the properties decided on the isal_* wrappers (C11, C13, C16)."""
import os
import re

from . import evidence, overlay, runner, wrappers
from .cbmc import REPO

NOT_WRAPPERS = {"isal_self_tests": "C17", "isal_crypto_get_version": "no arguments, no crypto",
                "isal_crypto_get_version_str": "no arguments, no crypto"}


def exported_entry_points():
    names = []
    for line in open(os.path.join(REPO, "isa-l_crypto.def")):
        m = re.match(r"\s*(isal_\w+)", line)
        if m:
            names.append(m.group(1))
    return names


def run_wrappers(rep, fips, select=None, legacy=True, only=None):
    wd = os.path.join(runner.scratch(), "wrap_fips" if fips else "wrap")
    jobs = []
    covered = set()
    try:
        for rel in wrappers.WRAPPER_FILES:
            tu = wrappers.WrapperTU(rel, wd, fips).build()
            for n in tu.contracts:
                covered.add(n)
                if select and not select(n):
                    continue
                jobs.append(tu.job(n))
            if legacy and not fips:
                for n, leg in tu.legacy.items():
                    if select and not select(n):
                        continue
                    jobs.append(tu.job(leg, legacy=True))
    except overlay.OverlayError as e:
        raise evidence.Undecided("extraction broke: %s" % e)
    missing = [n for n in exported_entry_points() if n not in covered and n not in NOT_WRAPPERS]
    if missing:
        raise evidence.Undecided("exported entry point(s) without a contract: %s" % ", ".join(missing))
    if only:
        jobs = [j for j in jobs if any(s in j.name for s in only.split(","))]

    def prog(job, r):
        if r["status"] != "ok":
            print("  [%s] %-60s %4d/%-4d %s" % (r["status"], job.name, r["discharged"], r["obligations"], r["reason"][:200]), flush=True)

    res = runner.run_jobs(jobs, prog)
    rep.add_job_results(res)
    rep.extra["entry_points_under_contract"] = len(covered)
    rep.extra["entry_points_exported"] = len(exported_entry_points())
    rep.assumptions.append(
        "ASSUMED: what the internal routine `_name` (NASM or dispatched symbol) does once called; the stub standing "
        "for it records its arguments, returns an arbitrary value and (FIPS build) asserts the self-test gate")
    rep.assumptions.append(
        "specification table vf/wrappers.py FAMILIES written from include/*.h and isal_crypto_api.h; precedence between "
        "simultaneous argument errors is deliberately not specified")
    return res


CHECKER = ("goto-cc -DSAFE_PARAM [-DFIPS_MODE] --function vf_h_<entry> <annotated copy of the wrapper TU>; "
           "goto-instrument --dfcc vf_h_<entry> --enforce-contract <entry>; cbmc --bounds-check --pointer-check "
           "--pointer-overflow-check --unwind 260 --unwinding-assertions")
