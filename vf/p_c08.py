"""C08 - no access outside caller-supplied byte ranges; inputs never modified (restricted to the C part)."""
import os

from . import evidence, misc_jobs, p_ctx_common, p_wrap_common, runner


def check(tier, seed, only=None):
    rep = evidence.Report("C08", tier, seed)
    # copy helpers of include/memcpy_inline.h: every constant length 0..128 (the callers' domain)
    jobs = misc_jobs.memcpy_jobs(128)
    if only:
        jobs = [j for j in jobs if any(s in j.name for s in only.split(","))]
    rep.add_job_results(runner.run_jobs(jobs))
    # context layer: exact-size user buffer, partial buffer, job ranges (pointer + bounds obligations)
    p_ctx_common.run_ctx(rep, tier, [
        ("hash_pad", "leaf", "all", "all"),
        ("hash_init_digest", "leaf", "per_param", "all"),
        ("submit", "proto", "reference_loose", "per_param"),
        ("resubmit", "proto", "reference_loose", "per_param"),
        ("flush", "proto", "reference_loose", "per_param"),
    ], only)
    # wrappers: no dereference of any argument before the guards (invalid pointers in the harness)
    p_wrap_common.run_wrappers(rep, fips=False, legacy=False, only=only)
    rep.default_replays()
    rep.assumptions.append("RESTRICTED TO C: the NASM kernels (about 80% of the library's loads and stores) are out of CBMC's reach; "
                           "for them C08 is not decided here (the rolling-hash scan and the hash managers get bounded native contract checks under C09/C05)")
    rep.notes.append("every object handed to a function under proof is allocated with exactly its documented size, so a one-byte over-read or "
                     "over-write is a failed pointer/bounds obligation; inputs are absent from every assigns clause (frame check)")
    rep.notes.append("mh update/tail/finalize (C05/C10) and rolling init (C09) carry the same pointer/bounds obligations; they are counted under those properties")
    return rep.finish(
        "cbmc --bounds-check --pointer-check --pointer-overflow-check on (a) the copy helpers for every constant length 0..128, (b) the context-layer proofs, (c) the wrapper proofs",
        "pointer-dereference, array-bounds, pointer-arithmetic and assigns-clause obligations of every function under contract")


def replay(path):
    print(open(path).read()[:4000])
    return 0
