"""C08 - no access outside caller-supplied byte ranges; inputs never modified (restricted to the C part)."""
import os

from . import evidence, misc_jobs, p_ctx_common, p_wrap_common, runner


def check(tier, seed, only=None):
    rep = evidence.Report("C08", tier, seed)
    # the bounded native check (builds every library object: about two minutes) runs beside the proofs
    import threading
    from . import native
    lmax, smax = (80, 40) if tier == "quick" else (400, 100)
    gbox = {}

    def _gcm():
        try:
            gbox["d"] = native.gcm_guard(os.path.join(runner.scratch(), "native_gcm"), lmax, smax, seed)
            gbox["x"] = native.gcm_guard(os.path.join(runner.scratch(), "native_gcm"), 300 if tier == "quick" else 2100,
                                         1024 if tier == "quick" else 4096, seed, prog="aes_guard")
        except Exception as e:  # reported below as undecided
            gbox["e"] = e
    gthread = threading.Thread(target=_gcm)
    gthread.start()
    # copy helpers of include/memcpy_inline.h: every constant length 0..128 (the callers' domain)
    jobs = misc_jobs.memcpy_jobs(128)
    if only:
        jobs = [j for j in jobs if any(s in j.name for s in only.split(","))]
    rep.add_job_results(runner.run_jobs(jobs))
    # context layer: exact-size user buffer, partial buffer, job ranges (pointer + bounds obligations)
    p_ctx_common.run_ctx(rep, tier, [
        ("hash_pad", "leaf", "all", "all"),
        ("hash_init_digest", "leaf", "per_param", "all"),
        ("submit", "proto", "reference_loose", "per_param"),
        ("resubmit", "proto", "reference_loose", "per_param"),
        ("flush", "proto", "reference_loose", "per_param"),
    ], only)
    # rolling hash (added after seed C08_c): bounds / pointer / frame obligations of init, reset (window object of exactly w bytes),
    # the C scan loop and, thorough, _rolling_hash2_run (buffer of exactly max_len bytes) - the same jobs as C09
    from . import overlay, rolling
    try:
        rj = [j for j in rolling.jobs(os.path.join(runner.scratch(), "rolling")) if "lemma" not in j.name and "table" not in j.name]
        if tier == "quick":
            rj = [j for j in rj if j.name != "rolling/run"]
        if only:
            rj = [j for j in rj if any(s in j.name for s in only.split(","))]
        rep.add_job_results(runner.run_jobs(rj))
    except overlay.OverlayError as e:
        rep.add_undecided("extraction broke (rolling): %s" % e)
    # wrappers: no dereference of any argument before the guards (invalid pointers in the harness)
    p_wrap_common.run_wrappers(rep, fips=False, legacy=False, only=only)
    rep.default_replays()
    # bounded stand-in for the NASM AES-GCM families (added after seed C08_b): guard pages around every caller-supplied range
    try:
        gthread.join()
        if "e" in gbox:
            raise gbox["e"]
        d = gbox["d"]
        rep.bounded.append({"what": "AES-GCM one-shot and init/update/update/finalize of the sse, avx_gen2, avx_gen4 and vaes_avx512 families (internal entry "
                                    "points, 128/256, enc/dec): every range (in, out, IV, AAD, tag) ends at / begins after an unmapped page; no fault, inputs "
                                    "unmodified, results independent of the placement; the non-temporal (_nt) variants under their documented rule (64-byte aligned data, "
                                    "every update but the last a multiple of 64 bytes): no fault, result == temporal variant",
                            "label": "bounded", "bound": "one-shot len 0..%d x 5 AAD lengths x tag 8/12/16; streaming update(p), update(L) for p, L in 0..%d" % (lmax, smax),
                            "evaluations": d["calls"], "distinct_nontrivial": d["cases"], "agree": d["ok"], "families": d["families"], "cmd": d["cmd"]})
        if not d["ok"]:
            path = os.path.join(rep.replay_dir(), "gcm_guard.txt")
            with open(path, "w") as f:
                f.write("native/gcm_guard.c on the real assembly from /repo\n$ " + d["cmd"] + "\n" + d["text"])
            first = [l for l in d["text"].split("\n") if l.startswith(("FAULT", "MODIFIED", "DIFFERENT"))] or [d["text"][-200:]]
            rep.add_violation("native/gcm_guard:aes_gcm:ranges", "bounded guard-page check on the real assembly: " + first[0][:260], path, True)
        dx = gbox["x"]
        rep.bounded.append({"what": "AES-XTS 128/256 enc+dec of the sse, avx and vaes families (every sector length from 16: ciphertext stealing) and AES-CBC "
                                    "128/192/256 (enc x4/x8, dec sse/avx/vaes_avx512): data ranges end at / begin after an unmapped page, raw keys and tweak "
                                    "and expanded key schedules end at one; no fault, inputs unmodified, placement-independent result, decrypt(encrypt(x)) == x, "
                                    "expanded-key XTS result == raw-key result; key expansion 128/192/256 (sse, avx): key and both schedules at page boundaries, "
                                    "key unmodified, families agree",
                            "label": "bounded", "bound": dx["cmd"], "evaluations": dx["calls"], "distinct_nontrivial": dx["cases"], "agree": dx["ok"],
                            "families": dx["families"], "cmd": dx["cmd"]})
        if not dx["ok"]:
            path = os.path.join(rep.replay_dir(), "aes_guard.txt")
            with open(path, "w") as f:
                f.write("native/aes_guard.c on the real assembly from /repo\n$ " + dx["cmd"] + "\n" + dx["text"])
            first = [l for l in dx["text"].split("\n") if l.startswith(("FAULT", "MODIFIED", "DIFFERENT", "ROUNDTRIP"))] or [dx["text"][-200:]]
            rep.add_violation("native/aes_guard:aes_xts_cbc:ranges", "bounded guard-page check on the real assembly: " + first[0][:260], path, True)
    except Exception as e:
        rep.add_undecided("native AES-GCM guard-page check could not be built/run: %s" % e)
    rep.assumptions.append("RESTRICTED TO C: the NASM kernels (about 80% of the library's loads and stores) are out of CBMC's reach; "
                           "for them C08 is not decided here; bounded native checks: AES-GCM families with guard pages (here), rolling-hash scans (C09), hash managers (C01/C06), "
                           "multi-hash block functions (C05); AES-XTS (raw and expanded keys), AES-CBC and key expansion with guard pages (here)")
    rep.notes.append("every object handed to a function under proof is allocated with exactly its documented size, so a one-byte over-read or "
                     "over-write is a failed pointer/bounds obligation; inputs are absent from every assigns clause (frame check)")
    rep.notes.append("mh update/tail/finalize (C05/C10) and rolling init (C09) carry the same pointer/bounds obligations; they are counted under those properties")
    return rep.finish(
        "cbmc --bounds-check --pointer-check --pointer-overflow-check on (a) the copy helpers for every constant length 0..128, (b) the context-layer proofs, (c) the wrapper proofs",
        "pointer-dereference, array-bounds, pointer-arithmetic and assigns-clause obligations of every function under contract")


def replay(path):
    print(open(path).read()[:4000])
    return 0
