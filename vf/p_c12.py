"""C12 - dispatch binds only to code the CPU/OS can execute, one family per object."""
import os

from . import asm2c, dispatch, evidence, runner


def check(tier, seed, only=None):
    rep = evidence.Report("C12", tier, seed)
    try:
        jobs = dispatch.jobs(os.path.join(runner.scratch(), "dispatch"))
    except asm2c.TranslationError as e:
        raise evidence.Undecided("translation broke: %s" % e)
    if only:
        jobs = [j for j in jobs if any(s in j.name for s in only.split(","))]

    def prog(job, r):
        if r["status"] != "ok":
            print("  [%s] %-70s %3d/%-3d %s" % (r["status"], job.name, r["discharged"], r["obligations"], r["reason"][:200]), flush=True)

    rep.add_job_results(runner.run_jobs(jobs, prog))
    import shutil
    shutil.rmtree(rep.replay_dir(), ignore_errors=True)

    def replay_fn(r, f, base):
        m = r["name"].split("/")
        rel = "/".join(m[1:3])
        entry = m[-1]
        if "/group/" in r["name"]:
            return None, False
        vec = dispatch.vector_from_trace(f.get("trace"))
        path, violated, text = dispatch.native_replay(rel, entry, vec, base + ".replay")
        if path is None:
            rep.notes.append(text)
            return None, False
        if violated:
            return path, True
        return None, False

    rep.default_replays(replay_fn)
    rep.assumptions.append("table 'implementation symbol suffix -> ISA level its body needs' (vf/dispatch.py LEVELS), the repository's naming convention")
    rep.assumptions.append("vf/asm2c.py translates the 16 handled mnemonics faithfully (nasm -E output, every instruction kept in order)")
    rep.assumptions.append("consistency constraints on the symbolic machine: contracts/dispatch_model.h VF_CPU_CONSISTENT (architectural implications only)")
    rep.extra["routines_translated"] = len(set(j.name.split("/")[-1] for j in jobs if "/stable/" not in j.name and "/group/" not in j.name))
    return rep.finish(
        "nasm -E <file>; vf/asm2c.py -> C; goto-cc --function vf_h_<entry>; cbmc --bounds-check --pointer-check --unwind 4 --unwinding-assertions",
        "one job per *_dispatch_init routine (all 2^160 values of cpuid(1).{eax,ecx}, cpuid(7,0).{ebx,ecx,edx}, XCR0 under the "
        "consistency constraints), one stability job per routine, one family-agreement job per group of entry points sharing an object")


def replay(path):
    print(open(path).read()[:4000])
    return 0
