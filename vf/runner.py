"""Parallel execution of proof jobs, optional per-obligation splitting, result cache."""
import concurrent.futures as cf
import hashlib
import json
import os
import shutil
import subprocess
import tempfile
import time

from . import cbmc

NCPU = int(os.environ.get("VF_JOBS", str(os.cpu_count() or 8)))
CACHE = os.environ.get("VF_CACHE", "/var/tmp/isal-verif-cache")
USE_CACHE = os.environ.get("VF_NO_CACHE", "") == ""

_scratch = None


def scratch():
    global _scratch
    if _scratch is None:
        base = os.environ.get("VF_SCRATCH", "/var/tmp")
        _scratch = tempfile.mkdtemp(prefix="isal-verif.", dir=base)
    return _scratch


def cleanup():
    global _scratch
    if _scratch and os.environ.get("VF_KEEP", "") == "":
        shutil.rmtree(_scratch, ignore_errors=True)
    _scratch = None


def tool_versions():
    out = {}
    for t in ("cbmc", "goto-cc", "goto-instrument"):
        try:
            out[t] = subprocess.run([t, "--version"], capture_output=True, text=True).stdout.strip()
        except Exception:
            out[t] = "?"
    return out


_TV = None


def job_key(job):
    """Content hash: all source texts + included contract headers + flags + tool version."""
    global _TV
    if _TV is None:
        _TV = json.dumps(tool_versions(), sort_keys=True)
    h = hashlib.sha256()
    h.update(_TV.encode())
    for s in job.sources:
        with open(s, "rb") as f:
            h.update(f.read())
    for d in sorted(set(job.includes)):
        if d.startswith(cbmc.VERIF):
            for root, _, files in os.walk(d):
                for fn in sorted(files):
                    with open(os.path.join(root, fn), "rb") as f:
                        h.update(fn.encode())
                        h.update(f.read())
    # headers of /repo that the sources include are part of the key through preprocessing
    try:
        cmd = ["gcc", "-E", "-P", "-D__CPROVER_requires(x)=", "-w"]
        for d in job.defines:
            cmd.append("-D" + d)
        for i in job.includes:
            cmd.append("-I" + i)
        pp = subprocess.run(cmd + job.sources, capture_output=True)
        h.update(pp.stdout)
    except Exception:
        h.update(os.urandom(8))
    spec = [
        job.entry, job.enforce, job.replace, job.loop_contracts, job.defines, job.unwind,
        job.unwindset, job.checks, job.solvers, job.extra_cbmc, job.canary, job.expect_classes,
        job.nondet_static, job.object_bits, job.extra_instrument, job.timeout,
    ]
    h.update(json.dumps(spec, sort_keys=True, default=str).encode())
    return h.hexdigest()


def run_jobs(jobs, progress=None):
    """Runs jobs in parallel; returns list of result dicts in the same order.
    Jobs with split=True are compiled/instrumented once and each contract-level
    obligation is then solved in its own cbmc process."""
    os.makedirs(CACHE, exist_ok=True)
    results = [None] * len(jobs)
    keys = [None] * len(jobs)
    prepared = {}  # i -> (gb, wd, t0)
    tasks = []  # (i, props, tag)
    parts = {}
    canaries = {}

    def finish(i, r):
        job = jobs[i]
        r["cached"] = False
        if r["status"] == "ok":
            if keys[i]:
                try:
                    slim = {k: v for k, v in r.items() if k not in ("workdir",)}
                    with open(os.path.join(CACHE, keys[i] + ".json"), "w") as f:
                        json.dump(slim, f)
                except Exception:
                    pass
            cbmc.cleanup(r["workdir"])
        results[i] = r
        if progress:
            progress(job, r)

    def prep(i):
        job = jobs[i]
        if USE_CACHE:
            try:
                keys[i] = job_key(job)
                cp = os.path.join(CACHE, keys[i] + ".json")
                if os.path.exists(cp):
                    r = json.load(open(cp))
                    if r.get("status") == "ok":
                        r["cached"] = True
                        r["meta"] = job.meta
                        r["workdir"] = ""
                        results[i] = r
                        if progress:
                            progress(job, r)
                        return i, None
            except Exception:
                keys[i] = None
        wd = os.path.join(scratch(), "j%04d_%s" % (i, "".join(c if c.isalnum() else "_" for c in job.name)[:60]))
        t0 = time.time()
        # the vacuity canary (an assertion that must FAIL) lives in a twin binary: finding its
        # satisfying assignment inside the full multi-property formula costs minutes, alone seconds
        gb, reason = cbmc.prepare(job, wd)
        if gb is not None and job.canary:
            cgb, reason = cbmc.prepare(job, wd, "_canary", ["VF_WITH_CANARY"])
            if cgb is None:
                gb = None
            else:
                cname = cbmc.canary_property(job, cgb, wd)
                if cname is None:
                    gb, reason = None, "vacuity guard: canary assertion not found in the harness"
                else:
                    canaries[i] = (cgb, cname)
        if gb is None:
            r = cbmc._new_result(job, wd)
            r["reason"] = reason
            r["wall_s"] = time.time() - t0
            finish(i, r)
            return i, None
        groups = [None]
        if job.split:
            props = cbmc.list_properties(job, gb, wd)
            if props:
                groups = cbmc.split_groups(props, job.split, job.rest_chunk)
        prepared[i] = (gb, wd, t0)
        return i, groups

    order = sorted(range(len(jobs)), key=lambda i: -jobs[i].meta.get("cost", 1))
    with cf.ThreadPoolExecutor(max_workers=NCPU) as ex:
        pend = {}
        for i in order:
            pend[ex.submit(prep, i)] = ("prep", i, None)
        remaining = {}
        while pend:
            done, _ = cf.wait(list(pend.keys()), return_when=cf.FIRST_COMPLETED)
            for f in done:
                kind, i, tag = pend.pop(f)
                if kind == "prep":
                    _, groups = f.result()
                    if groups is None:
                        continue
                    remaining[i] = len(groups)
                    parts[i] = []
                    gb, wd, t0 = prepared[i]
                    for k, g in enumerate(groups):
                        fut = ex.submit(cbmc.solve, jobs[i], gb, wd, g, "_%d" % k, (),
                                        jobs[i].rest_solvers if isinstance(g, cbmc.RestGroup) else None)
                        pend[fut] = ("solve", i, k)
                    if i in canaries:
                        cgb, cname = canaries[i]
                        remaining[i] += 1
                        fut = ex.submit(cbmc.solve, jobs[i], cgb, wd, [cname], "_canary", ["--slice-formula"])
                        pend[fut] = ("solve", i, "canary")
                else:
                    parts[i].append(f.result())
                    remaining[i] -= 1
                    if remaining[i] == 0:
                        gb, wd, t0 = prepared[i]
                        r = cbmc._new_result(jobs[i], wd)
                        cbmc.merge(jobs[i], r, parts[i])
                        r["wall_s"] = time.time() - t0
                        r["split_runs"] = len(parts[i])
                        finish(i, r)
    return results
