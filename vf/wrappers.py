"""The 72 isal_* entry points (and their legacy twins): contracts generated from a
role-based specification table, overlaid on the real wrapper translation units.

The specification below is written from the API documentation in include/*.h and
isal_crypto_api.h (which argument is required, its domain, the error code for it) and
from the property statements C13/C16 - not from the wrapper bodies.  The contract of an
entry point says:
  * some guard of the table violated  ->  return value is the code of a violated guard
    (any one of them: precedence between simultaneous errors is not part of the
    property), the internal routine is not called, nothing is written (assigns clause),
    nothing is read through an argument (the harness passes NULL / invalid pointers);
  * FIPS build, non-approved algorithm ->  ISAL_CRYPTO_ERR_FIPS_INVALID_ALGO, no call, no write;
  * FIPS build, approved, guards fine, self tests fail -> ISAL_CRYPTO_ERR_SELF_TEST, no call,
    no write;  XTS with equal keys -> ISAL_CRYPTO_ERR_XTS_SAME_KEYS;
  * otherwise -> 0 and exactly one call of the internal routine `_name` with the same
    arguments (the stub standing for the NASM routine records them and, in a FIPS build,
    asserts that isal_self_tests() has been called and returned 0 before it).
"""
import os
import re
import subprocess

from . import overlay
from .cbmc import REPO, VERIF, Job

E = "ISAL_CRYPTO_ERR_"

GCM_TAG = "auth_tag_len != 16 && auth_tag_len != 12 && auth_tag_len != 8"
GCM_MAXLEN = "ISAL_GCM_MAX_LEN"  # the documented public constant of include/aes_gcm.h

# family -> spec
#  guards: list of (C condition over parameter names, error code suffix)
#  ptrs:   parameter -> size in bytes of a valid object (documented size, 1 if data buffer)
#  opt:    pointer parameters that may be NULL in a valid call, with the condition making NULL ok
#  args:   the internal routine's expected arguments, by wrapper parameter name
FAMILIES = {
    "gcm_oneshot": dict(
        match=r"isal_aes_gcm_(enc|dec)_(128|256)(_nt)?$",
        guards=[("key_data == NULL", "NULL_EXP_KEY"), ("context_data == NULL", "NULL_CTX"),
                ("out == NULL && len != 0", "NULL_DST"), ("in == NULL && len != 0", "NULL_SRC"),
                ("len > " + GCM_MAXLEN, "CIPH_LEN"), ("iv == NULL", "NULL_IV"),
                ("aad == NULL && aad_len > 0", "NULL_AAD"), ("auth_tag == NULL", "NULL_AUTH"),
                (GCM_TAG, "AUTH_TAG_LEN")],
        ptrs={"key_data": "sizeof(struct isal_gcm_key_data)", "context_data": "sizeof(struct isal_gcm_context_data)",
              "out": "1", "in": "1", "iv": "12", "aad": "1", "auth_tag": "16"},
        opt={"out": "len == 0", "in": "len == 0", "aad": "aad_len == 0"},
        args=["key_data", "context_data", "out", "in", "len", "iv", "aad", "aad_len", "auth_tag", "auth_tag_len"],
        approved=True),
    "gcm_init": dict(
        match=r"isal_aes_gcm_init_(128|256)$",
        guards=[("key_data == NULL", "NULL_EXP_KEY"), ("context_data == NULL", "NULL_CTX"),
                ("iv == NULL", "NULL_IV"), ("aad == NULL && aad_len > 0", "NULL_AAD")],
        ptrs={"key_data": "sizeof(struct isal_gcm_key_data)", "context_data": "sizeof(struct isal_gcm_context_data)",
              "iv": "12", "aad": "1"},
        opt={"aad": "aad_len == 0"},
        args=["key_data", "context_data", "iv", "aad", "aad_len"], approved=True),
    "gcm_update": dict(
        match=r"isal_aes_gcm_(enc|dec)_(128|256)_update(_nt)?$",
        guards=[("key_data == NULL", "NULL_EXP_KEY"), ("context_data == NULL", "NULL_CTX"),
                ("in == NULL && len > 0", "NULL_SRC"), ("out == NULL && len > 0", "NULL_DST"),
                ("len > " + GCM_MAXLEN, "CIPH_LEN")],
        ptrs={"key_data": "sizeof(struct isal_gcm_key_data)", "context_data": "sizeof(struct isal_gcm_context_data)",
              "out": "1", "in": "1"},
        opt={"out": "len == 0", "in": "len == 0"},
        args=["key_data", "context_data", "out", "in", "len"], approved=True),
    "gcm_finalize": dict(
        match=r"isal_aes_gcm_(enc|dec)_(128|256)_finalize$",
        guards=[("key_data == NULL", "NULL_EXP_KEY"), ("context_data == NULL", "NULL_CTX"),
                ("auth_tag == NULL", "NULL_AUTH"), (GCM_TAG, "AUTH_TAG_LEN")],
        ptrs={"key_data": "sizeof(struct isal_gcm_key_data)", "context_data": "sizeof(struct isal_gcm_context_data)",
              "auth_tag": "16"},
        opt={}, args=["key_data", "context_data", "auth_tag", "auth_tag_len"], approved=True),
    "gcm_pre": dict(
        match=r"isal_aes_gcm_pre_(128|256)$",
        guards=[("key == NULL", "NULL_KEY"), ("key_data == NULL", "NULL_EXP_KEY")],
        ptrs={"key": "KEYBYTES", "key_data": "sizeof(struct isal_gcm_key_data)"},
        opt={}, args=["key", "key_data"], approved=True),
    "cbc": dict(
        match=r"isal_aes_cbc_(enc|dec)_(128|192|256)$",
        guards=[("keys == NULL", "NULL_EXP_KEY"), ("in == NULL", "NULL_SRC"), ("out == NULL", "NULL_DST"),
                ("iv == NULL", "NULL_IV"), ("(len_bytes & 0xf) != 0", "CIPH_LEN")],
        ptrs={"keys": "1", "in": "1", "out": "1", "iv": "16"},
        opt={}, args=["in", "iv", "keys", "out", "len_bytes"], approved=True),
    "keyexp": dict(
        match=r"isal_aes_keyexp_(128|192|256)$",
        guards=[("key == NULL", "NULL_KEY"), ("exp_key_enc == NULL || exp_key_dec == NULL", "NULL_EXP_KEY")],
        ptrs={"key": "KEYBYTES", "exp_key_enc": "1", "exp_key_dec": "1"},
        opt={}, args=["key", "exp_key_enc", "exp_key_dec"], approved=True),
    "xts_raw": dict(
        match=r"isal_aes_xts_(enc|dec)_(128|256)$",
        guards=[("k2 == NULL || k1 == NULL", "NULL_KEY"), ("initial_tweak == NULL", "XTS_NULL_TWEAK"),
                ("in == NULL", "NULL_SRC"), ("out == NULL", "NULL_DST"),
                ("len_bytes < 16 || len_bytes > (1ULL << 24)", "CIPH_LEN")],
        ptrs={"k2": "KEYBYTES", "k1": "KEYBYTES", "initial_tweak": "16", "in": "1", "out": "1"},
        opt={}, args=["k2", "k1", "initial_tweak", "len_bytes", "in", "out"], approved=True, xts="KEYBYTES"),
    "xts_exp": dict(
        match=r"isal_aes_xts_(enc|dec)_(128|256)_expanded_key$",
        guards=[("k2 == NULL || k1 == NULL", "NULL_EXP_KEY"), ("initial_tweak == NULL", "XTS_NULL_TWEAK"),
                ("in == NULL", "NULL_SRC"), ("out == NULL", "NULL_DST"),
                ("len_bytes < 16 || len_bytes > (1ULL << 24)", "CIPH_LEN")],
        ptrs={"k2": "SCHEDBYTES", "k1": "SCHEDBYTES", "initial_tweak": "16", "in": "1", "out": "1"},
        opt={}, args=["k2", "k1", "initial_tweak", "len_bytes", "in", "out"], approved=True, xts="SCHEDBYTES"),
    "hash_init": dict(
        match=r"isal_(sha1|sha256|sha512|md5|sm3)_ctx_mgr_init$",
        guards=[("mgr == NULL", "NULL_MGR")], ptrs={"mgr": "sizeof(*mgr)"}, opt={}, args=["mgr"],
        approved=lambda n: not re.search("md5|sm3", n)),
    "hash_submit": dict(
        match=r"isal_(sha1|sha256|sha512|md5|sm3)_ctx_mgr_submit$",
        guards=[("mgr == NULL", "NULL_MGR"), ("ctx_in == NULL || ctx_out == NULL", "NULL_CTX"),
                ("buffer == NULL && len != 0 && ((unsigned) flags == 0u || (unsigned) flags == 3u)", "NULL_SRC")],
        # documented: "OK to have NULL source buffer when flags is FIRST or LAST"; a NULL buffer with
        # len == 0 cannot be read through either.  The guard above is the weakest reading of the docs;
        # wrappers that refuse more (NULL buffer with len == 0) are accepted by `may_refuse`.
        may_refuse=[("buffer == NULL", "NULL_SRC")],
        ptrs={"mgr": "sizeof(*mgr)", "ctx_in": "sizeof(*ctx_in)", "ctx_out": "sizeof(*ctx_out)", "buffer": "1"},
        opt={"buffer": "1"},
        args=["mgr", "ctx_in", "buffer", "len", "flags"],
        approved=lambda n: not re.search("md5|sm3", n), special="hash_submit"),
    "hash_flush": dict(
        match=r"isal_(sha1|sha256|sha512|md5|sm3)_ctx_mgr_flush$",
        guards=[("mgr == NULL", "NULL_MGR"), ("ctx_out == NULL", "NULL_CTX")],
        ptrs={"mgr": "sizeof(*mgr)", "ctx_out": "sizeof(*ctx_out)"}, opt={}, args=["mgr"],
        approved=lambda n: not re.search("md5|sm3", n), special="hash_flush"),
    "mh_init": dict(
        match=r"isal_mh_(sha1|sha256)_init$", guards=[("ctx == NULL", "NULL_CTX")],
        ptrs={"ctx": "sizeof(*ctx)"}, opt={}, args=["ctx"], approved=False, special="passthrough"),
    "mh_update": dict(
        match=r"isal_mh_(sha1|sha256|sha1_murmur3_x64_128)_update$",
        guards=[("ctx == NULL", "NULL_CTX"), ("buffer == NULL", "NULL_SRC")],
        ptrs={"ctx": "sizeof(*ctx)", "buffer": "1"}, opt={}, args=["ctx", "buffer", "len"], approved=False, special="passthrough"),
    "mh_finalize": dict(
        match=r"isal_mh_(sha1|sha256)_finalize$",
        guards=[("ctx == NULL", "NULL_CTX"), ("DIGEST == NULL", "NULL_AUTH")],
        ptrs={"ctx": "sizeof(*ctx)", "DIGEST": "32"}, opt={}, args=["ctx", "DIGEST"], approved=False, special="passthrough"),
    "mur_init": dict(
        match=r"isal_mh_sha1_murmur3_x64_128_init$", guards=[("ctx == NULL", "NULL_CTX")],
        ptrs={"ctx": "sizeof(*ctx)"}, opt={}, args=["ctx", "murmur_seed"], approved=False, special="passthrough"),
    "mur_finalize": dict(
        match=r"isal_mh_sha1_murmur3_x64_128_finalize$",
        guards=[("ctx == NULL", "NULL_CTX"), ("mh_sha1_digest == NULL || murmur3_x64_128_digest == NULL", "NULL_AUTH")],
        ptrs={"ctx": "sizeof(*ctx)", "mh_sha1_digest": "20", "murmur3_x64_128_digest": "16"}, opt={},
        args=["ctx", "mh_sha1_digest", "murmur3_x64_128_digest"], approved=False, special="passthrough"),
    "roll_init": dict(
        match=r"isal_rolling_hash2_init$",
        guards=[("state == NULL", "NULL_CTX")],
        ptrs={"state": "sizeof(*state)"}, opt={}, args=["state", "w"], approved=False, special="roll_init"),
    "roll_reset": dict(
        match=r"isal_rolling_hash2_reset$",
        guards=[("state == NULL", "NULL_CTX"), ("init_bytes == NULL", "NULL_INIT_VAL")],
        ptrs={"state": "sizeof(*state)", "init_bytes": "48"}, opt={}, args=["state", "init_bytes"], approved=False),
    "roll_run": dict(
        match=r"isal_rolling_hash2_run$",
        guards=[("state == NULL", "NULL_CTX"), ("buffer == NULL", "NULL_SRC"), ("offset == NULL", "NULL_OFFSET"),
                ("match == NULL", "NULL_MATCH")],
        ptrs={"state": "sizeof(*state)", "buffer": "1", "offset": "4", "match": "4"}, opt={},
        args=["state", "buffer", "max_len", "mask", "trigger", "offset"], approved=False, special="roll_run"),
    "roll_mask": dict(
        match=r"isal_rolling_hashx_mask_gen$", guards=[("mask == NULL", "NULL_MASK")],
        ptrs={"mask": "4"}, opt={}, args=["mean", "shift"], approved=False, special="roll_mask"),
}

WRAPPER_FILES = [
    "aes/aes_gcm.c", "aes/aes_cbc.c", "aes/aes_keyexp.c", "aes/aes_xts.c",
    "sha1_mb/sha1_mb.c", "sha256_mb/sha256_mb.c", "sha512_mb/sha512_mb.c", "md5_mb/md5_mb.c", "sm3_mb/sm3_mb.c",
    "mh_sha1/mh_sha1.c", "mh_sha256/mh_sha256.c", "mh_sha1_murmur3_x64_128/mh_sha1_murmur3_x64_128.c",
    "rolling_hash/rolling_hash2.c",
]

LEGACY_EXC = {  # isal_ name -> legacy name where it is not "drop the isal_ prefix"
    "isal_aes_xts_enc_128": "XTS_AES_128_enc", "isal_aes_xts_dec_128": "XTS_AES_128_dec",
    "isal_aes_xts_enc_256": "XTS_AES_256_enc", "isal_aes_xts_dec_256": "XTS_AES_256_dec",
    "isal_aes_xts_enc_128_expanded_key": "XTS_AES_128_enc_expanded_key",
    "isal_aes_xts_dec_128_expanded_key": "XTS_AES_128_dec_expanded_key",
    "isal_aes_xts_enc_256_expanded_key": "XTS_AES_256_enc_expanded_key",
    "isal_aes_xts_dec_256_expanded_key": "XTS_AES_256_dec_expanded_key",
}


def internal_name(isal):
    """the internal (dispatched / NASM) symbol an entry point must end up calling"""
    if isal in LEGACY_EXC:
        return "_" + LEGACY_EXC[isal]
    return "_" + isal[len("isal_"):]


def legacy_name(isal):
    return LEGACY_EXC.get(isal, isal[len("isal_"):])


def family_of(name):
    for fam, spec in FAMILIES.items():
        if re.match(spec["match"], name):
            return fam, spec
    return None, None


def keybytes(name):
    m = re.search(r"(128|192|256)", name)
    bits = int(m.group(1)) if m else 128
    return bits // 8, 16 * {128: 11, 192: 13, 256: 15}[bits]


def split_params(s):
    out, depth, cur = [], 0, ""
    for ch in s:
        if ch in "([":
            depth += 1
        elif ch in ")]":
            depth -= 1
        if ch == "," and depth == 0:
            out.append(cur.strip())
            cur = ""
        else:
            cur += ch
    if cur.strip():
        out.append(cur.strip())
    return out


def param_name(decl):
    d = re.sub(r"\[[^\]]*\]", "", decl).strip()
    m = re.search(r"(\w+)\s*$", d)
    return m.group(1) if m else None


def find_functions(text):
    """definitions `name(params)\n{` -> dict name -> (params string, return type text)"""
    out = {}
    for m in re.finditer(r"^([A-Za-z_][\w \t\*]*?)\n(\w+)\(((?:[^(){};]|\([^()]*\))*)\)\s*\n\{", text, re.M):
        out[m.group(2)] = (m.group(3), m.group(1).strip())
    return out


def preprocess(path, defines, includes):
    cmd = ["gcc", "-E", "-P", "-w"] + ["-D" + d for d in defines] + ["-I" + i for i in includes] + [path]
    r = subprocess.run(cmd, capture_output=True, text=True)
    if r.returncode != 0:
        raise overlay.OverlayError("gcc -E failed on %s: %s" % (path, r.stderr[-300:]))
    return r.stdout


def find_prototype(pp, name):
    m = re.search(r"(?:^|[;}])\s*((?:extern\s+)?[A-Za-z_][\w \t\*\n]*?)\b" + re.escape(name) + r"\s*\(((?:[^(){};]|\([^()]*\))*)\)\s*;", pp, re.M)
    if not m:
        return None
    ret = re.sub(r"\s+", " ", m.group(1)).replace("extern ", "").strip()
    ret = re.sub(r"__attribute__\s*\(\(.*?\)\)", "", ret).strip()
    return ret, m.group(2)


PRELUDE = r"""
/* ---- inserted by vf/wrappers.py ---- */
#include <stdint.h>
#include <stdlib.h>
struct vf_w_s {
        uint32_t calls;      /* number of calls of an internal (NASM / dispatched) routine */
        uint32_t callee;     /* id of the routine called last */
        uint32_t st_calls;   /* number of calls of isal_self_tests() */
        uint64_t a[12];      /* its arguments */
        void *ret_ctx;       /* what a pointer-returning routine returned */
} vfW;
#define vf_ret_ctx vfW.ret_ctx
int vf_st;                   /* what isal_self_tests() answers (FIPS build) */
uint8_t vf_mode[12];         /* per pointer parameter: 0 NULL, 1 invalid, 2 valid object */
#define VF_ARG(x) ((uint64_t) (uintptr_t) (x))
#ifdef FIPS_MODE
#define VF_GATE() __CPROVER_assert(vfW.st_calls > 0 && vf_st == 0, "FIPS gate: self tests ran and passed before cryptographic work")
#else
#define VF_GATE() ((void) 0)
#endif
"""


class WrapperTU:
    def __init__(self, relpath, workdir, fips):
        self.rel = relpath
        self.path = os.path.join(REPO, relpath)
        self.fips = fips
        self.text = open(self.path).read()
        self.sha = overlay.sha256_text(self.text)
        self.includes = [os.path.join(REPO, "include"), os.path.join(REPO, os.path.dirname(relpath)),
                         os.path.join(REPO, "mh_sha1"), os.path.join(VERIF, "contracts")]
        self.defines = ["SAFE_DATA", "SAFE_PARAM", "NDEBUG"] + (["FIPS_MODE"] if fips else [])
        self.funcs = find_functions(self.text)
        self.pp = preprocess(self.path, self.defines, self.includes)
        self.entries = [n for n in self.funcs if n.startswith("isal_")]
        self.workdir = workdir
        self.anno = None
        self.ids = {}
        self.errors = []

    # -- contract text ------------------------------------------------------
    def contract(self, name):
        fam, spec = family_of(name)
        if spec is None:
            raise overlay.OverlayError("entry point %s: no specification family (new entry point?)" % name)
        kb, sb = keybytes(name)
        params = [param_name(p) for p in split_params(self.funcs[name][0])]
        def sub(s):
            s = s.replace("KEYBYTES", str(kb)).replace("SCHEDBYTES", str(sb))
            if "DIGEST" in s:
                dig = [p for p in params if p.endswith("_digest")]
                s = s.replace("DIGEST", dig[0] if dig else "DIGEST")
            return s
        guards = [(sub(c), E + code) for c, code in spec["guards"]]
        may = [(sub(c), E + code) for c, code in spec.get("may_refuse", [])]
        approved = spec["approved"](name) if callable(spec["approved"]) else spec["approved"]
        ptrs = {sub(k): sub(v) for k, v in spec["ptrs"].items()}
        for k in ptrs:
            if k not in params:
                raise overlay.OverlayError("entry point %s: documented parameter %s not found (has %s)" % (name, k, params))
        viol = " || ".join("(%s)" % c for c, _ in guards) or "0"
        one_of = " || ".join("((%s) && __CPROVER_return_value == %s)" % (c, code) for c, code in guards + may) or "0"
        cid = self.ids.setdefault(internal_name(name), len(self.ids) + 1)
        args = [sub(a) for a in spec["args"]]
        argeq = " && ".join("vfW.a[%d] == VF_ARG(%s)" % (i, a) for i, a in enumerate(args)) or "1"
        if spec.get("special") == "roll_mask":
            argeq = "vfW.a[0] == VF_ARG((long) mean) && (uint32_t) vfW.a[1] == shift"
        allvalid = " && ".join(
            "(vf_mode[%d] == 2%s)" % (i, (" || (vf_mode[%d] == 0 && (%s))" % (i, sub(spec["opt"][p]))) if p in spec["opt"] else "")
            for i, p in enumerate(params) if p in ptrs) or "1"
        refused = " || ".join("(%s)" % c for c, _ in may) or "0"
        sp = spec.get("special")
        xts = spec.get("xts")
        L = []
        L.append("__CPROVER_requires(vfW.calls == 0 && vfW.st_calls == 0)")
        L.append("__CPROVER_requires((%s) || (%s))" % (viol, allvalid))
        if self.fips and not approved:
            L.append("__CPROVER_assigns(vfW)")
            L.append("__CPROVER_ensures(__CPROVER_return_value == %sFIPS_INVALID_ALGO)" % E)
            L.append("__CPROVER_ensures(vfW.calls == 0)")
            return "\n".join(L)
        same = "0"
        if self.fips and xts:
            n = sub(xts)
            same = "(!(%s) && vf_same_keys)" % viol
        stfail = "(vf_st != 0)" if self.fips else "0"
        ok = "(!(%s) && !(%s) && !%s)" % (viol, same, stfail)
        okp = "(!(%s) && !(%s) && !%s && !(%s && __CPROVER_return_value != 0))" % (viol, same, stfail, refused)
        # frame
        if sp in ("hash_submit", "hash_flush"):
            L.append("__CPROVER_assigns(vfW)")
            L.append("__CPROVER_assigns(%s: *ctx_out%s)" % ("!(%s)" % viol, ", ctx_in->error" if sp == "hash_submit" else ""))
        elif sp == "roll_run":
            L.append("__CPROVER_assigns(vfW)")
            L.append("__CPROVER_assigns(!(%s): *offset, *match)" % viol)
        elif sp == "roll_mask":
            L.append("__CPROVER_assigns(vfW)")
            L.append("__CPROVER_assigns(!(%s): *mask)" % viol)
        else:
            L.append("__CPROVER_assigns(vfW)")
        # refusal
        L.append("__CPROVER_ensures((%s) ==> ((%s) && vfW.calls == 0))" % (viol, one_of))
        if self.fips:
            if xts:
                L.append("__CPROVER_ensures(%s ==> (__CPROVER_return_value == %sXTS_SAME_KEYS && vfW.calls == 0))" % (same, E))
            L.append("__CPROVER_ensures((!(%s) && !(%s) && %s) ==> ((__CPROVER_return_value == %sSELF_TEST || (%s)) && vfW.calls == 0))"
                     % (viol, same, stfail, E, one_of))
        # success
        if sp == "hash_submit":
            mapping = ("(vf_rejected ? (vf_rej_code == -1 ? %sINVALID_FLAGS : (vf_rej_code == -2 ? %sALREADY_PROCESSING : "
                       "%sALREADY_COMPLETED)) : 0)" % (E, E, E))
            proceed = "(vfW.calls == 1 && vfW.callee == %d && %s && *ctx_out == vf_ret_ctx && __CPROVER_return_value == %s)" % (cid, argeq, mapping)
            declined = "((%s) && (%s) && vfW.calls == 0)" % (refused, one_of)
            L.append("__CPROVER_ensures(%s ==> (%s || %s))" % (ok, proceed, declined))
        elif sp == "hash_flush":
            L.append("__CPROVER_ensures(%s ==> (__CPROVER_return_value == 0 && vfW.calls == 1 && vfW.callee == %d && %s && *ctx_out == vf_ret_ctx))" % (ok, cid, argeq))
        elif sp == "passthrough":
            # the entry point hands back the internal routine's own status (0 for every non-NULL
            # context: that is the internal routine's contract, proved under C05/C10)
            L.append("__CPROVER_ensures(%s ==> (__CPROVER_return_value == vf_ret_int && vfW.calls == 1 && vfW.callee == %d && %s))" % (ok, cid, argeq))
        elif sp == "roll_init":
            # the window-size verdict is the internal routine's (its contract, proved under C09:
            # returns -1 and leaves the state untouched iff w > 48)
            L.append("__CPROVER_ensures(%s ==> (__CPROVER_return_value == (vf_ret_int < 0 ? %sWINDOW_SIZE : 0) && vfW.calls == 1 && vfW.callee == %d && %s))" % (ok, E, cid, argeq))
        elif sp == "roll_run":
            L.append("__CPROVER_ensures(%s ==> (__CPROVER_return_value == 0 && vfW.calls == 1 && vfW.callee == %d && %s && *match == vf_ret_int))" % (ok, cid, argeq))
        elif sp == "roll_mask":
            L.append("__CPROVER_ensures(%s ==> (__CPROVER_return_value == 0 && vfW.calls == 1 && vfW.callee == %d && %s && *mask == (uint32_t) vf_ret_int))" % (ok, cid, argeq))
        else:
            L.append("__CPROVER_ensures(%s ==> (__CPROVER_return_value == 0 && vfW.calls == 1 && vfW.callee == %d && %s))" % (ok, cid, argeq))
        return "\n".join(L)

    def legacy_contract(self, isal):
        fam, spec = family_of(isal)
        leg = legacy_name(isal)
        cid = self.ids.setdefault(internal_name(isal), len(self.ids) + 1)
        lparams = [param_name(p) for p in split_params(self.funcs[leg][0])]
        iparams = [param_name(p) for p in split_params(self.funcs[isal][0])]
        kb, sb = keybytes(isal)
        args = []
        for a in spec["args"]:
            if a == "DIGEST":
                a = [p for p in iparams if p.endswith("_digest")][0]
            # legacy parameter at the same position as the isal_ parameter of that name
            if a in iparams and iparams.index(a) < len(lparams) and len(lparams) == len(iparams):
                args.append(lparams[iparams.index(a)])
            elif a in lparams:
                args.append(a)
            else:
                # parameter lists differ (e.g. ctx_out): map by name order of the callee args
                args.append(None)
        if None in args:
            # fall back: the legacy function must pass its own parameters through in order
            args = lparams[: len(spec["args"])]
        argeq = " && ".join("vfW.a[%d] == VF_ARG(%s)" % (i, a) for i, a in enumerate(args)) or "1"
        extra_assign = ", ctx->error" if spec.get("special") == "hash_submit" else ""
        L = ["__CPROVER_requires(vfW.calls == 0)", "__CPROVER_assigns(vfW%s)" % extra_assign,
             "__CPROVER_ensures(vfW.calls == 1 && vfW.callee == %d && %s)" % (cid, argeq)]
        ret = self.funcs[leg][1]
        sp = spec.get("special")
        if "*" in ret:
            L.append("__CPROVER_ensures(__CPROVER_return_value == vf_ret_ctx)")
        elif sp in ("passthrough", "roll_init", "roll_run") and ret.strip() != "void":
            L.append("__CPROVER_ensures(__CPROVER_return_value == vf_ret_int)")
        elif sp == "roll_mask":
            L.append("__CPROVER_ensures(__CPROVER_return_value == (uint32_t) vf_ret_int)")
        return "\n".join(L)

    # -- stubs for the internal routines -----------------------------------------
    def stub(self, iname, cid):
        proto = find_prototype(self.pp, iname)
        if proto is None:
            raise overlay.OverlayError("%s: prototype of internal routine %s not found" % (self.rel, iname))
        ret, ps = proto
        decls = split_params(ps)
        names = []
        new = []
        for k, d in enumerate(decls):
            if d.strip() == "void":
                continue
            n = param_name(d)
            if n is None or re.match(r"^(int|char|long|short|unsigned|void|uint\d+_t|size_t)$", n) or d.strip().endswith("*"):
                n = "vf_p%d" % k
                d = d + " " + n
            names.append(n)
            new.append(d)
        body = ["        VF_GATE();", "        vfW.calls++;", "        vfW.callee = %d;" % cid]
        for i, n in enumerate(names[:12]):
            body.append("        vfW.a[%d] = VF_ARG(%s);" % (i, n))
        if re.search(r"_ctx_mgr_submit$", iname):
            body.append("        if (vf_rejected) { %s->error = vf_rej_code; vf_ret_ctx = %s; return %s; }" % (names[1], names[1], names[1]))
            body.append("        %s->error = 0;" % names[1])
            body.append("        vf_ret_ctx = vf_pick == 0 ? (void *) 0 : (vf_pick == 1 ? (void *) %s : (void *) vf_other);" % names[1])
            body.append("        return vf_ret_ctx;")
        elif re.search(r"_ctx_mgr_flush$", iname):
            body.append("        vf_ret_ctx = vf_pick == 0 ? (void *) 0 : (void *) vf_other;")
            body.append("        return vf_ret_ctx;")
        elif ret.strip() == "void":
            pass
        elif "*" in ret:
            body.append("        return vf_ret_ctx;")
        else:
            body.append("        return (%s) vf_ret_int;" % ret)
        return "%s\n%s(%s)\n{\n%s\n}\n" % (ret, iname, ", ".join(new) or "void", "\n".join(body))

    # -- harness --------------------------------------------------------------------
    def harness(self, name, legacy=False):
        fam, spec = family_of(name if not legacy else legacy)
        fn = name
        kb, sb = keybytes(fn)
        decls = split_params(self.funcs[fn][0])
        lines = ["void vf_h_%s(void)\n{" % fn]
        call = []
        ptrs = spec["ptrs"] if not legacy else {}
        for i, d in enumerate(decls):
            if d.strip() == "void":
                continue
            n = param_name(d)
            base = re.sub(r"\[[^\]]*\]", "", d).strip()
            typ = base[: base.rfind(n)].strip()
            isptr = "*" in typ or "[" in d
            if "[" in d and "*" not in typ:
                typ = typ + " *"
            typ = typ.replace("const ", "") if False else typ
            key = n
            size = None
            for k, v in ptrs.items():
                kk = k
                if k == "DIGEST" and n.endswith("_digest"):
                    kk = n
                if kk == n:
                    size = v.replace("KEYBYTES", str(kb)).replace("SCHEDBYTES", str(sb)).replace("sizeof(*%s)" % n, "sizeof(*((%s) 0))" % typ)
            if isptr and not legacy:
                # the entry points with an alignment rule (_nt) get their data objects at an arbitrary offset 0..63 (seed C13_c)
                skew = "vf_skew()" if ("_nt" in name and n in ("in", "out")) else "0"
                lines.append("        %s %s = (%s) vf_ptr(vf_mode[%d], %s, %s);" % (typ, n, typ, i, size or "1", skew))
            elif isptr:
                lines.append("        %s %s = (%s) vf_ptr(2, 4096, 0);" % (typ, n, typ))
            else:
                t2 = typ.replace("const ", "")
                lines.append("        %s %s; /* nondeterministic */" % (t2, n))
            call.append(n)
        if not legacy and spec.get("special") in ("hash_submit", "hash_flush"):
            lines.append("        vf_other = malloc(4096);")
            lines.append("        __CPROVER_assume(vf_other != 0 && vf_pick <= 2 && vf_rej_code >= -3 && vf_rej_code <= -1);")
        if not legacy and self.fips and spec.get("xts"):
            n_ = spec["xts"].replace("KEYBYTES", str(kb)).replace("SCHEDBYTES", str(sb))
            lines.append("        if (k1 && k2 && vf_mode[0] == 2 && vf_mode[1] == 2) {")
            lines.append("                /* equal keys are built by copying; unequal keys differ at an arbitrary byte */")
            lines.append("                if (vf_same_keys) memcpy((void *) k2, k1, %s);" % n_)
            lines.append("                else { unsigned vf_j; __CPROVER_assume(vf_j < %s && k1[vf_j] != k2[vf_j]); }" % n_)
            lines.append("        }")
        lines.append("        %s(%s);" % (fn, ", ".join(call)))
        lines.append("        VF_CANARY();\n}")
        return "\n".join(lines)

    def internal_contract(self, iname, cid):
        """the internal routine is C code of this very TU: callers use a recording contract"""
        ps, ret = self.funcs[iname]
        names = [param_name(d) for d in split_params(ps) if d.strip() != "void"]
        ens = ["vfW.calls == __CPROVER_old(vfW.calls) + 1", "vfW.callee == %d" % cid]
        ens += ["vfW.a[%d] == VF_ARG(%s)" % (i, n) for i, n in enumerate(names[:12])]
        if ret.replace("static", "").replace("inline", "").strip() != "void":
            ens.append("__CPROVER_return_value == (%s) vf_ret_int" % ret.replace("static", "").replace("inline", "").strip())
        return "%s\n%s(%s)\n__CPROVER_assigns(vfW)\n__CPROVER_ensures(%s)\n;\n" % (ret, iname, ps, " && ".join(ens))

    def build(self):
        self.nondets = set()
        contracts = {}
        legacy = {}
        crules = []
        for n in self.entries:
            if n in ("isal_crypto_get_version_str", "isal_crypto_get_version", "isal_self_tests"):
                continue
            contracts[n] = self.contract(n)
            crules.append(overlay.func_def_rule(n, contracts[n]))
            leg = legacy_name(n)
            if not self.fips and leg in self.funcs:
                legacy[n] = leg
                crules.append(overlay.func_def_rule(leg, self.legacy_contract(n)))
        self.internal_c = [i for i in self.ids if i in self.funcs]
        pre = PRELUDE + self.extra_prelude()
        for iname in self.internal_c:
            pre += self.internal_contract(iname, self.ids[iname])
        first_def = re.search(r"^[A-Za-z_][\w \t\*]*\n\w+\((?:[^(){};]|\([^()]*\))*\)\s*\n\{", self.text, re.M)
        head = self.text[: first_def.start()] if first_def else self.text
        incs = list(re.finditer(r'^#include [<"][^\n]*\n', head, re.M))
        if not incs:
            raise overlay.OverlayError("%s: no #include before the first function" % self.rel)
        last_inc = re.escape(incs[-1].group(0))
        rules = [overlay.Rule("prelude", r"(?s)\A.*?" + last_inc + r"(?P<at>)", pre, count=1)] + crules
        out, fired = overlay.apply(self.text, rules)
        tail = ["\n/* ---- stubs standing for the internal (NASM / dispatched) routines ---- */"]
        if self.fips:
            tail.append("int isal_self_tests(void)\n{\n        vfW.st_calls++;\n        return vf_st;\n}\n")
        for iname, cid in sorted(self.ids.items(), key=lambda kv: kv[1]):
            if iname in self.funcs:
                continue  # C implementation in this TU: replaced by its recording contract
            tail.append(self.stub(iname, cid))
        tail.append(HARNESS_COMMON)
        hs = []
        for n in contracts:
            hs.append(self.harness(n))
        for n, leg in legacy.items():
            hs.append(self.harness(leg, legacy=n))
        out = out + "\n".join(tail) + "\n".join(hs) + "\n"
        os.makedirs(self.workdir, exist_ok=True)
        self.anno = os.path.join(self.workdir, ("fips_" if self.fips else "") + self.rel.replace("/", "_"))
        with open(self.anno, "w") as f:
            f.write(out)
        self.fired = fired
        self.contracts = contracts
        self.legacy = legacy
        return self

    def extra_prelude(self):
        s = ""
        if re.search(r"_mb\.c$", self.rel):
            s += "_Bool vf_rejected; int vf_rej_code; uint8_t vf_pick; void *vf_other;\n"
        s += "int vf_ret_int; _Bool vf_same_keys;\n"
        return s

    def job(self, fn, legacy=False):
        return Job(
            "wrap/%s%s/%s" % ("fips/" if self.fips else "", self.rel, fn), [self.anno], entry="vf_h_" + fn, enforce=fn,
            replace=list(self.internal_c),
            includes=self.includes, defines=self.defines, unwind=260, timeout=600,
            solvers=["minisat", "cadical"],
            expect_classes=["postcondition"],
            meta={"file": self.rel, "sha256": self.sha, "aspect": "fips" if self.fips else "safe_param",
                  "cost": 5, "legacy": legacy},
        )


HARNESS_COMMON = r"""
/* ---- harness helpers ---- */
#ifdef VF_WITH_CANARY
#define VF_CANARY() __CPROVER_assert(0, "vf_canary: end of harness reachable")
#else
#define VF_CANARY() ((void) 0)
#endif
static size_t vf_skew(void)
{
        size_t k; /* uninitialised = nondeterministic */
        __CPROVER_assume(k < 64);
        return k;
}
static void *vf_ptr(uint8_t mode, size_t size, size_t skew)
{
        if (mode == 0)
                return (void *) 0;
        /* the object is `size` bytes ending exactly at the end of the allocation and starting at an ARBITRARY offset 0..63 into it,
         * so that its address has arbitrary low bits (skew != 0 only for the data buffers of the _nt entry points: their 64-byte rule; seed C13_c) */
        char *p = malloc(size + skew);
        __CPROVER_assume(p != 0);
        p += skew;
        if (mode == 1)
                return p + size; /* one past the end: any access through it is out of bounds */
        __CPROVER_assume(mode == 2);
        return p;
}
"""
