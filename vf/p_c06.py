"""C06 - the hash manager never loses, duplicates or strands a job; flush drains."""
from . import evidence, p_ctx_common


def check(tier, seed, only=None):
    rep = evidence.Report("C06", tier, seed)
    p_ctx_common.run_ctx(rep, tier, [
        ("submit", "proto", "per_param", "per_param"),
        ("resubmit", "proto", "per_param", "per_param"),
        ("flush", "proto", "per_param", "per_param"),
        ("submit", "work", "reference", "per_param"),
        ("resubmit", "work", "reference", "per_param"),
        ("flush", "work", "reference", "per_param"),
    ], only, extra=p_ctx_common.base_jobs(tier, ("submit",)))
    rep.default_replays()
    p_ctx_common.add_mgr_bounded(rep, tier, seed)
    rep.notes.append(
        "proto aspect: conservation ghost g_held (exactly the held context is submitted / returned), g_n < lanes, "
        "flush NULL <=> manager empty, returned status exactly IDLE or COMPLETE (COMPLETE iff LAST accepted), "
        "user_data / job.user_data / user buffers unmodified (frame), rejected submit writes ctx->error only. "
        "work aspect: termination measure g_work strictly decreases in the resubmit and flush loops.")
    return rep.finish(
        p_ctx_common.CHECKER,
        "one proof job per (context file, function, aspect); obligations = contract post/pre-conditions, loop "
        "invariants (base+step), decreases clauses, assigns-clause frame checks, pointer and bounds checks")


def replay(path):
    print(open(path).read()[:4000])
    return 0
