"""Bounded native checks of ASSUMED contracts on the real assembly (never counted as proved)."""
import os
import subprocess
import time

from .cbmc import REPO, VERIF

NASM_FLAGS = ["-f", "elf64", "-DAS_FEATURE_LEVEL=10", "-DHAVE_AS_KNOWS_AVX512", "-DHAVE_AS_KNOWS_SHANI", "-DSAFE_DATA", "-DSAFE_PARAM"]


def nasm(rel, out, extra=(), repo=REPO):
    cmd = ["nasm"] + NASM_FLAGS + ["-I" + os.path.join(repo, "include") + "/", "-I" + os.path.join(repo, os.path.dirname(rel)) + "/"]
    cmd += list(extra) + [os.path.join(repo, rel), "-o", out]
    r = subprocess.run(cmd, capture_output=True, text=True)
    if r.returncode:
        raise RuntimeError("nasm failed on %s: %s" % (rel, r.stderr[-300:]))
    return out


def cc(rel, out, extra=(), repo=REPO, opt="-O1"):
    cmd = ["gcc", opt, "-c", "-DSAFE_DATA", "-DSAFE_PARAM", "-I" + os.path.join(repo, "include"), "-I" + os.path.join(repo, os.path.dirname(rel))]
    cmd += list(extra) + [os.path.join(repo, rel), "-o", out]
    r = subprocess.run(cmd, capture_output=True, text=True)
    if r.returncode:
        raise RuntimeError("gcc failed on %s: %s" % (rel, r.stderr[-300:]))
    return out


def rolling_diff(workdir, lmax, nseed, seed):
    """returns dict(ok, text, calls, cases, cmd)"""
    os.makedirs(workdir, exist_ok=True)
    objs = [cc("rolling_hash/rolling_hash2.c", os.path.join(workdir, "rh2.o")),
            cc("rolling_hash/rolling_hashx_base.c", os.path.join(workdir, "rhx.o")),
            nasm("rolling_hash/rolling_hash2_until_00.asm", os.path.join(workdir, "u00.o")),
            nasm("rolling_hash/rolling_hash2_until_04.asm", os.path.join(workdir, "u04.o")),
            nasm("rolling_hash/rolling_hash2_multibinary.asm", os.path.join(workdir, "mb.o"))]
    exe = os.path.join(workdir, "roll_diff")
    r = subprocess.run(["gcc", "-O1", "-I" + os.path.join(REPO, "include"), os.path.join(VERIF, "native", "roll_diff.c")] + objs + ["-o", exe],
                       capture_output=True, text=True)
    if r.returncode:
        raise RuntimeError("link failed: " + r.stderr[-300:])
    t0 = time.time()
    r = subprocess.run([exe, str(lmax), str(nseed), str(seed)], capture_output=True, text=True, timeout=1800)
    out = r.stdout
    calls = cases = 0
    for tok in out.split():
        if tok.startswith("calls="):
            calls = int(tok[6:])
        if tok.startswith("cases="):
            cases = int(tok[6:])
    return {"ok": r.returncode == 0, "text": out, "calls": calls, "cases": cases, "wall_s": time.time() - t0,
            "cmd": "roll_diff %d %d %d" % (lmax, nseed, seed)}


def mh_diff(workdir, iters, seed, repo=REPO, opt="-O1"):
    """opt: optimisation level the library's C files are compiled with (the -O2 run guards the trusted-base
    assumption that gcc compiles type-punned code the way CBMC reads it: fix 1a3b4e2)"""
    os.makedirs(workdir, exist_ok=True)
    objs = []
    for name in ("mh_sha1", "mh_sha256"):
        d = name
        outer = "sha1_for_mh_sha1.c" if name == "mh_sha1" else "sha256_for_mh_sha256.c"
        for c in ("%s.c" % name, "%s_avx512.c" % name, "%s_block_base.c" % name, "%s_update_base.c" % name, "%s_finalize_base.c" % name, outer):
            objs.append(cc("%s/%s" % (d, c), os.path.join(workdir, name + "_" + c.replace(".c", ".o")), extra=["-I" + os.path.join(repo, "mh_sha1")],
                           repo=repo, opt=opt))
        for a in ("block_sse", "block_avx", "block_avx2", "block_avx512", "multibinary"):
            objs.append(nasm("%s/%s_%s.asm" % (d, name, a), os.path.join(workdir, "%s_%s.o" % (name, a))))
    exe = os.path.join(workdir, "mh_diff")
    r = subprocess.run(["gcc", "-O1", "-I" + os.path.join(repo, "include"), os.path.join(VERIF, "native", "mh_diff.c")] + objs + ["-o", exe],
                       capture_output=True, text=True)
    if r.returncode:
        raise RuntimeError("link failed: " + r.stderr[-600:])
    t0 = time.time()
    r = subprocess.run([exe, str(iters), str(seed)], capture_output=True, text=True, timeout=1800)
    cases = 0
    for tok in r.stdout.split():
        if tok.startswith("cases="):
            cases = int(tok[6:])
    return {"ok": r.returncode == 0, "text": r.stdout, "calls": cases, "cases": cases, "wall_s": time.time() - t0,
            "cmd": "mh_diff %d %d (library C files compiled %s)" % (iters, seed, opt)}


def mgr_diff(workdir, ops, maxblk, seed, repo=REPO):
    """bounded contract check of every lane manager family named by the context files of the working tree"""
    import glob
    import re
    from . import misc_jobs
    os.makedirs(workdir, exist_ok=True)
    inv = misc_jobs.writable_inventory(os.path.join(workdir, "objs"), repo)  # builds every object
    if inv["build_failures"]:
        raise RuntimeError("library objects did not build: %s" % inv["build_failures"][0][0])
    fams, calls = [], []
    spec = {"sha1": ("ISAL_SHA1", 64, 20, "ref_sha1"), "sha256": ("ISAL_SHA256", 64, 32, "ref_sha256"),
            "sha512": ("ISAL_SHA512", 128, 64, "ref_sha512"), "md5": ("ISAL_MD5", 64, 16, "ref_md5"), "sm3": ("ISAL_SM3", 64, 32, "ref_sm3")}
    for p in sorted(glob.glob(os.path.join(repo, "*_mb", "*_ctx_*.c"))):
        if "_base" in os.path.basename(p):
            continue
        t = open(p).read()
        alg = os.path.basename(p).split("_ctx_")[0]
        fam = os.path.basename(p)[len(alg) + 5:-2]
        i = re.search(r"\b(_?%s_[sm]b_mgr_init_\w+)\s*\(" % alg, t)
        s = set(re.findall(r"\b(_?%s_[sm]b_mgr_submit_\w+)\s*\(\s*&mgr->mgr" % alg, t))
        f = set(re.findall(r"\b(_?%s_[sm]b_mgr_flush_\w+)\s*\(\s*&mgr->mgr" % alg, t))
        if not i or len(s) != 1 or len(f) != 1:
            raise RuntimeError("%s: manager entry points not identified" % p)
        P, blk, dig, ref = spec[alg]
        name = "%s_%s" % (alg, fam)
        fams.append("FAMILY_TEST(%s, %s_JOB, %s_MB_JOB_MGR, %s, %s, %s, %d, %d, %s)" % (name, P, P, i.group(1), s.pop(), f.pop(), blk, dig, ref))
        calls.append("        bad |= test_%s(ops, maxblk);" % name)
    # duplicate prototypes of shared init/submit symbols are harmless (same types)
    src = open(os.path.join(VERIF, "native", "mgr_diff_tmpl.c")).read().replace("@FAMILIES@", "\n".join(fams)).replace("@CALLS@", "\n".join(calls))
    cpath = os.path.join(workdir, "mgr_diff.c")
    with open(cpath, "w") as fh:
        fh.write(src)
    objs = sorted(glob.glob(os.path.join(workdir, "objs", "*.o")))
    exe = os.path.join(workdir, "mgr_diff")
    r = subprocess.run(["gcc", "-O1", "-w", "-I" + os.path.join(repo, "include"), cpath] + objs + ["-o", exe], capture_output=True, text=True)
    if r.returncode:
        raise RuntimeError("link failed: " + r.stderr[-800:])
    t0 = time.time()
    r = subprocess.run([exe, str(ops), str(maxblk), str(seed)], capture_output=True, text=True, timeout=3000)
    calls_n = cases = 0
    for tok in r.stdout.split():
        if tok.startswith("calls="):
            calls_n = int(tok[6:])
        if tok.startswith("cases="):
            cases = int(tok[6:])
    return {"ok": r.returncode == 0, "text": r.stdout + ("\n[crashed: exit %d]" % r.returncode if r.returncode not in (0, 1) else ""),
            "calls": calls_n, "cases": cases, "wall_s": time.time() - t0, "families": len(fams),
            "cmd": "mgr_diff %d %d %d" % (ops, maxblk, seed)}


def mur_diff(workdir, lmax, reps, seed, repo=REPO):
    """bounded native check of the stitched mh_sha1_murmur3_x64_128 API against Appleby's reference and the stand-alone mh_sha1"""
    import glob
    from . import misc_jobs
    os.makedirs(workdir, exist_ok=True)
    inv = misc_jobs.writable_inventory(os.path.join(workdir, "objs"), repo)  # builds every object of the library
    if inv["build_failures"]:
        raise RuntimeError("library objects did not build: %s" % inv["build_failures"][0][0])
    objs = sorted(glob.glob(os.path.join(workdir, "objs", "*.o")))
    exe = os.path.join(workdir, "mur_diff")
    r = subprocess.run(["gcc", "-O1", "-w", "-I" + os.path.join(repo, "include"), os.path.join(VERIF, "native", "mur_diff.c")] + objs + ["-o", exe],
                       capture_output=True, text=True)
    if r.returncode:
        raise RuntimeError("link failed: " + r.stderr[-800:])
    t0 = time.time()
    r = subprocess.run([exe, str(lmax), str(reps), str(seed)], capture_output=True, text=True, timeout=1800)
    cases = 0
    for tok in r.stdout.split():
        if tok.startswith("cases="):
            cases = int(tok[6:])
    return {"ok": r.returncode == 0, "text": r.stdout + ("\n[crashed: exit %d]" % r.returncode if r.returncode not in (0, 1) else ""),
            "calls": cases, "cases": cases, "wall_s": time.time() - t0, "cmd": "mur_diff %d %d %d" % (lmax, reps, seed)}


def gcm_guard(workdir, lmax, smax, seed, repo=REPO, prog="gcm_guard"):
    """bounded guard-page check of the NASM AES-GCM families (C08); prog="aes_guard": AES-XTS and AES-CBC"""
    import glob
    from . import misc_jobs
    os.makedirs(workdir, exist_ok=True)
    if not glob.glob(os.path.join(workdir, "objs", "*.o")):
        inv = misc_jobs.writable_inventory(os.path.join(workdir, "objs"), repo)
        if inv["build_failures"]:
            raise RuntimeError("library objects did not build: %s" % inv["build_failures"][0][0])
    objs = sorted(glob.glob(os.path.join(workdir, "objs", "*.o")))
    exe = os.path.join(workdir, prog)
    r = subprocess.run(["gcc", "-O1", "-w", "-I" + os.path.join(repo, "include"), os.path.join(VERIF, "native", prog + ".c")] + objs + ["-o", exe],
                       capture_output=True, text=True)
    if r.returncode:
        raise RuntimeError("link failed: " + r.stderr[-800:])
    t0 = time.time()
    r = subprocess.run([exe, str(lmax), str(smax), str(seed)], capture_output=True, text=True, timeout=1800)
    cases = fams = 0
    for tok in r.stdout.split():
        if tok.startswith("cases="):
            cases = int(tok[6:])
        if tok.startswith("families="):
            fams = int(tok[9:])
    return {"ok": r.returncode == 0, "text": r.stdout + ("\n[crashed: exit %d]" % r.returncode if r.returncode not in (0, 1) else ""),
            "calls": cases, "cases": cases, "families": fams, "wall_s": time.time() - t0, "cmd": "%s %d %d %d" % (prog, lmax, smax, seed)}


def base_diff(workdir, lmax, reps, seed, repo=REPO, opts=("-O1", "-O2")):
    """bounded native end-to-end check of the five *_ctx_base.c files at the given optimisation levels"""
    os.makedirs(workdir, exist_ok=True)
    total, texts, ok = 0, [], True
    t0 = time.time()
    for alg in ("sha1", "sha256", "sha512", "md5", "sm3"):
        for opt in opts:
            o = cc("%s_mb/%s_ctx_base.c" % (alg, alg), os.path.join(workdir, "%s_base%s.o" % (alg, opt)), repo=repo, opt=opt)
            exe = os.path.join(workdir, "base_diff_%s%s" % (alg, opt))
            r = subprocess.run(["gcc", "-O1", "-DVF_ALG_%s" % alg.upper(), "-I" + os.path.join(repo, "include"), "-I" + os.path.join(VERIF, "spec"),
                                os.path.join(VERIF, "native", "base_diff.c"), o, "-o", exe], capture_output=True, text=True)
            if r.returncode:
                raise RuntimeError("link failed: " + r.stderr[-600:])
            r = subprocess.run([exe, str(lmax), str(reps), str(seed)], capture_output=True, text=True, timeout=900)
            for tok in r.stdout.split():
                if tok.startswith("cases="):
                    total += int(tok[6:])
            if r.returncode != 0:
                ok = False
                texts.append("%s %s: %s" % (alg, opt, r.stdout.strip()[:400] or "[crashed: exit %d]" % r.returncode))
    return {"ok": ok, "text": "\n".join(texts) or "AGREE", "calls": total, "cases": total, "wall_s": time.time() - t0,
            "cmd": "base_diff %d %d %d for sha1 sha256 sha512 md5 sm3 x %s" % (lmax, reps, seed, "/".join(opts))}
