"""Bounded native checks of ASSUMED contracts on the real assembly (never counted as proved)."""
import os
import subprocess
import time

from .cbmc import REPO, VERIF

NASM_FLAGS = ["-f", "elf64", "-DAS_FEATURE_LEVEL=10", "-DHAVE_AS_KNOWS_AVX512", "-DHAVE_AS_KNOWS_SHANI", "-DSAFE_DATA", "-DSAFE_PARAM"]


def nasm(rel, out, extra=(), repo=REPO):
    cmd = ["nasm"] + NASM_FLAGS + ["-I" + os.path.join(repo, "include") + "/", "-I" + os.path.join(repo, os.path.dirname(rel)) + "/"]
    cmd += list(extra) + [os.path.join(repo, rel), "-o", out]
    r = subprocess.run(cmd, capture_output=True, text=True)
    if r.returncode:
        raise RuntimeError("nasm failed on %s: %s" % (rel, r.stderr[-300:]))
    return out


def cc(rel, out, extra=(), repo=REPO):
    cmd = ["gcc", "-O1", "-c", "-DSAFE_DATA", "-DSAFE_PARAM", "-I" + os.path.join(repo, "include"), "-I" + os.path.join(repo, os.path.dirname(rel))]
    cmd += list(extra) + [os.path.join(repo, rel), "-o", out]
    r = subprocess.run(cmd, capture_output=True, text=True)
    if r.returncode:
        raise RuntimeError("gcc failed on %s: %s" % (rel, r.stderr[-300:]))
    return out


def rolling_diff(workdir, lmax, nseed, seed):
    """returns dict(ok, text, calls, cases, cmd)"""
    os.makedirs(workdir, exist_ok=True)
    objs = [cc("rolling_hash/rolling_hash2.c", os.path.join(workdir, "rh2.o")),
            cc("rolling_hash/rolling_hashx_base.c", os.path.join(workdir, "rhx.o")),
            nasm("rolling_hash/rolling_hash2_until_00.asm", os.path.join(workdir, "u00.o")),
            nasm("rolling_hash/rolling_hash2_until_04.asm", os.path.join(workdir, "u04.o")),
            nasm("rolling_hash/rolling_hash2_multibinary.asm", os.path.join(workdir, "mb.o"))]
    exe = os.path.join(workdir, "roll_diff")
    r = subprocess.run(["gcc", "-O1", os.path.join(VERIF, "native", "roll_diff.c")] + objs + ["-o", exe], capture_output=True, text=True)
    if r.returncode:
        raise RuntimeError("link failed: " + r.stderr[-300:])
    t0 = time.time()
    r = subprocess.run([exe, str(lmax), str(nseed), str(seed)], capture_output=True, text=True, timeout=1800)
    out = r.stdout
    calls = cases = 0
    for tok in out.split():
        if tok.startswith("calls="):
            calls = int(tok[6:])
        if tok.startswith("cases="):
            cases = int(tok[6:])
    return {"ok": r.returncode == 0, "text": out, "calls": calls, "cases": cases, "wall_s": time.time() - t0,
            "cmd": "roll_diff %d %d %d" % (lmax, nseed, seed)}


def mh_diff(workdir, iters, seed, repo=REPO):
    os.makedirs(workdir, exist_ok=True)
    objs = []
    for name in ("mh_sha1", "mh_sha256"):
        d = name
        outer = "sha1_for_mh_sha1.c" if name == "mh_sha1" else "sha256_for_mh_sha256.c"
        for c in ("%s.c" % name, "%s_avx512.c" % name, "%s_block_base.c" % name, "%s_update_base.c" % name, "%s_finalize_base.c" % name, outer):
            objs.append(cc("%s/%s" % (d, c), os.path.join(workdir, name + "_" + c.replace(".c", ".o")), extra=["-I" + os.path.join(repo, "mh_sha1")]))
        for a in ("block_sse", "block_avx", "block_avx2", "block_avx512", "multibinary"):
            objs.append(nasm("%s/%s_%s.asm" % (d, name, a), os.path.join(workdir, "%s_%s.o" % (name, a))))
    exe = os.path.join(workdir, "mh_diff")
    r = subprocess.run(["gcc", "-O1", "-I" + os.path.join(repo, "include"), os.path.join(VERIF, "native", "mh_diff.c")] + objs + ["-o", exe],
                       capture_output=True, text=True)
    if r.returncode:
        raise RuntimeError("link failed: " + r.stderr[-600:])
    t0 = time.time()
    r = subprocess.run([exe, str(iters), str(seed)], capture_output=True, text=True, timeout=1800)
    cases = 0
    for tok in r.stdout.split():
        if tok.startswith("cases="):
            cases = int(tok[6:])
    return {"ok": r.returncode == 0, "text": r.stdout, "calls": cases, "cases": cases, "wall_s": time.time() - t0,
            "cmd": "mh_diff %d %d" % (iters, seed)}
