"""Entry point: /verif/check <property-id> [--tier quick|thorough] [--replay file]

exit 0  property held on everything explored (KNOWN-FINDING lines possible)
exit 1  at least one `VIOLATION property=<id> replay=<path>` line was printed
exit 2  undecided: timeout, out of memory, extraction/translation broke, vacuity guard
"""
import argparse
import importlib
import json
import os
import sys
import time

from . import evidence, overlay, runner

PROPS = {
    "C01": "vf.p_c01",
    "C05": "vf.p_c05",
    "C06": "vf.p_c06",
    "C08": "vf.p_c08",
    "C09": "vf.p_c09",
    "C10": "vf.p_c10",
    "C11": "vf.p_c11",
    "C12": "vf.p_c12",
    "C13": "vf.p_c13",
    "C15": "vf.p_c15",
    "C16": "vf.p_c16",
    "C17": "vf.p_c17",
    "C18": "vf.p_c18",
    "C20": "vf.p_c20",
}


def main(argv=None):
    ap = argparse.ArgumentParser()
    ap.add_argument("prop")
    ap.add_argument("--tier", default=os.environ.get("VERIF_TIER", "quick"), choices=["quick", "thorough"])
    ap.add_argument("--replay", default=None)
    ap.add_argument("--only", default=None, help="debug: comma list of substrings selecting jobs")
    a = ap.parse_args(argv)
    pid = a.prop.upper()
    if pid not in PROPS:
        print("unknown or not-applicable property %s (see MANIFEST.json not_applicable)" % pid)
        return 2
    try:
        mod = importlib.import_module(PROPS[pid])
    except ImportError as e:
        print("property %s: checker not built: %s" % (pid, e))
        return 2
    seed = int(os.environ.get("VERIF_SEED", "0") or 0)
    t0 = time.time()
    try:
        if a.replay:
            rc = mod.replay(a.replay)
        else:
            rc = mod.check(a.tier, seed, only=a.only)
    except evidence.Undecided as e:
        print("UNDECIDED property=%s %s" % (pid, e))
        rc = 2
    except overlay.OverlayError as e:  # an anchor of the contract overlay no longer fits the text: undecided, never a violation
        print("UNDECIDED property=%s extraction broke: %s" % (pid, e))
        rc = 2
    finally:
        runner.cleanup()
    print("property %s tier %s: exit %d after %.0f s" % (pid, a.tier, rc, time.time() - t0))
    return rc


if __name__ == "__main__":
    sys.exit(main())
