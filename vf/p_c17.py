"""C17 - FIPS self-tests run exactly once under any interleaving; nobody passes early."""
import os

from . import asm2c, evidence, fips, overlay, runner


def check(tier, seed, only=None):
    rep = evidence.Report("C17", tier, seed)
    try:
        wd = os.path.join(runner.scratch(), "fips")
        jobs = fips.c_jobs(wd) + fips.asm_jobs(wd)
    except (asm2c.TranslationError, overlay.OverlayError) as e:
        raise evidence.Undecided("extraction/translation broke: %s" % e)

    def prog(job, r):
        print("  [%s] %-40s %3d/%-3d %s" % (r["status"], job.name, r["discharged"], r["obligations"], r["reason"][:200]), flush=True)

    rep.add_job_results(runner.run_jobs(jobs, prog))
    rep.default_replays()
    rep.assumptions.append("memory model: `lock cmpxchg` and aligned 32-bit mov are atomic and sequentially consistent (x86-TSO argument in DESIGN.md, not checked)")
    rep.assumptions.append("liveness ('no thread waits forever') needs fairness and termination of the known-answer tests: NOT decided")
    rep.assumptions.append("vf/asm2c.py translates the status routines faithfully")
    rep.notes.append("the known-answer tests are modelled as returning an ARBITRARY int (0 = pass): isal_self_tests must publish a verdict in {0,1} whatever they return")
    return rep.finish(
        "C part: goto-instrument --dfcc --enforce-contract isal_self_tests --replace-call-with-contract <status routines, sub-tests>; "
        "asm part: nasm -E, asm2c, goto-instrument --dfcc --apply-loop-contracts; cbmc",
        "sequential contract of isal_self_tests() over every status value and every sub-test result; step proofs of the two status routines "
        "with arbitrary interference of other threads before every shared access (rely) and the protocol's guarantee asserted on every own step")


def replay(path):
    print(open(path).read()[:4000])
    return 0
