"""Thin driver around goto-cc / goto-instrument / cbmc.

One Job = one enforced contract (or one plain harness), run in its own scratch
directory with timeout + address-space limit.  Result status:
  'ok'        every obligation discharged (and the vacuity canary FAILED as it must)
  'fail'      at least one real obligation failed  (candidate violation)
  'undecided' timeout / out of memory / tool error / vacuity guard tripped
"""
import json
import os
import re
import resource
import shutil
import subprocess
import time

REPO = os.environ.get("VF_REPO", "/repo")
VERIF = os.path.dirname(os.path.dirname(os.path.abspath(__file__)))

SOLVERS = {
    "minisat": [],
    "cadical": ["--sat-solver", "cadical"],
    "kissat": ["--external-sat-solver", "kissat"],
    "z3": ["--z3"],
    "cvc5": ["--cvc5"],
}


def _limits(mem_gb):
    def f():
        b = int(mem_gb * (1 << 30))
        resource.setrlimit(resource.RLIMIT_AS, (b, b))
        os.setsid()

    return f


def run(cmd, cwd, timeout, mem_gb, log):
    t0 = time.time()
    with open(log, "ab") as lf:
        lf.write(("\n$ " + " ".join(cmd) + "\n").encode())
    try:
        p = subprocess.Popen(
            cmd, cwd=cwd, stdout=subprocess.PIPE, stderr=subprocess.PIPE, preexec_fn=_limits(mem_gb)
        )
        try:
            out, err = p.communicate(timeout=timeout)
        except subprocess.TimeoutExpired:
            try:
                os.killpg(p.pid, 9)
            except Exception:
                p.kill()
            out, err = p.communicate()
            with open(log, "ab") as lf:
                lf.write(b"[timeout]\n")
            return None, out, err, time.time() - t0
    except OSError as e:
        return -999, b"", str(e).encode(), time.time() - t0
    with open(log, "ab") as lf:
        lf.write(err[-20000:])
    return p.returncode, out, err, time.time() - t0


class Job:
    def __init__(
        self,
        name,
        sources,
        entry,
        enforce=None,
        replace=(),
        loop_contracts=False,
        defines=(),
        includes=(),
        unwind=None,
        unwindset=(),
        checks=("--bounds-check", "--pointer-check", "--pointer-overflow-check"),
        solvers=("minisat",),
        timeout=600,
        mem_gb=12,
        extra_cbmc=(),
        canary=True,
        expect_classes=(),
        meta=None,
        nondet_static=False,
        object_bits=None,
        extra_instrument=(),
        split=False,
        rest_solvers=None,
        rest_chunk=None,
    ):
        self.name = name
        self.sources = list(sources)
        self.entry = entry
        self.enforce = enforce
        self.replace = list(replace)
        self.loop_contracts = loop_contracts
        self.defines = list(defines)
        self.includes = list(includes)
        self.unwind = unwind
        self.unwindset = list(unwindset)
        self.checks = list(checks)
        self.solvers = list(solvers)
        self.timeout = timeout
        self.mem_gb = mem_gb
        self.extra_cbmc = list(extra_cbmc)
        self.canary = canary
        self.expect_classes = list(expect_classes)
        self.meta = meta or {}
        self.nondet_static = nondet_static
        self.object_bits = object_bits
        self.extra_instrument = list(extra_instrument)
        self.split = split
        self.rest_chunk = rest_chunk
        self.rest_solvers = list(rest_solvers) if rest_solvers else None  # portfolio for the mass of frame / pointer obligations in split mode


def parse_cbmc_json(out):
    """Returns (results list, cprover_status, messages)"""
    try:
        data = json.loads(out.decode("utf-8", "replace"))
    except Exception:
        return None, None, []
    results = None
    status = None
    msgs = []
    for item in data:
        if not isinstance(item, dict):
            continue
        if "result" in item:
            results = item["result"]
        if "cProverStatus" in item:
            status = item["cProverStatus"]
        if "messageText" in item:
            msgs.append(item["messageText"])
    return results, status, msgs


def prop_class(r):
    """obligation class from the property name / description"""
    p = r.get("property", "")
    d = r.get("description", "")
    for k in (
        "postcondition",
        "precondition",
        "loop_invariant_base",
        "loop_invariant_step",
        "loop_decreases",
        "loop_assigns",
        "loop_step_unwinding",
        "assigns",
        "unwind",
        "pointer_dereference",
        "array_bounds",
        "pointer_arithmetic",
        "overflow",
        "assertion",
    ):
        if k in p:
            return k
    if "invariant before entry" in d:
        return "loop_invariant_base"
    if "invariant is preserved" in d or "invariant after step" in d:
        return "loop_invariant_step"
    if "decreases" in d:
        return "loop_decreases"
    return "other"


def _new_result(job, workdir):
    return {
        "name": job.name,
        "entry": job.entry,
        "enforce": job.enforce,
        "replace": job.replace,
        "status": "undecided",
        "reason": "",
        "obligations": 0,
        "discharged": 0,
        "failed": [],
        "solver": None,
        "solvers_used": {},
        "solver_s": 0.0,
        "wall_s": 0.0,
        "classes": {},
        "meta": job.meta,
        "workdir": workdir,
    }


def prepare(job, workdir, variant="", extra_defines=()):
    """goto-cc + goto-instrument.  Returns (gb_path or None, reason)."""
    os.makedirs(workdir, exist_ok=True)
    log = os.path.join(workdir, "log%s.txt" % variant)
    a = os.path.join(workdir, "a%s.gb" % variant)
    b = os.path.join(workdir, "b%s.gb" % variant)
    cc = ["goto-cc", "--function", job.entry]
    for d in list(job.defines) + list(extra_defines):
        cc.append("-D" + d)
    for i in job.includes:
        cc.append("-I" + i)
    cc += job.sources + ["-o", a]
    rc, out, err, _ = run(cc, workdir, 300, job.mem_gb, log)
    if rc != 0:
        return None, "goto-cc failed: " + err.decode("utf-8", "replace")[-600:]
    cur = a
    if job.enforce or job.replace or job.loop_contracts:
        gi = ["goto-instrument", "--dfcc", job.entry]
        if job.enforce:
            gi += ["--enforce-contract", job.enforce]
        for r in job.replace:
            gi += ["--replace-call-with-contract", r]
        if job.loop_contracts:
            gi += ["--apply-loop-contracts"]
        gi += job.extra_instrument
        gi += [a, b]
        rc, out, err, _ = run(gi, workdir, 600, job.mem_gb, log)
        if rc != 0:
            return None, "goto-instrument failed: " + (out + err).decode("utf-8", "replace")[-900:]
        cur = b
    return cur, ""


def base_cmd(job):
    base = ["cbmc"] + job.checks
    if job.unwind is not None:
        base += ["--unwind", str(job.unwind), "--unwinding-assertions"]
    for u in job.unwindset:
        base += ["--unwindset", u]
    if job.object_bits:
        base += ["--object-bits", str(job.object_bits)]
    if job.nondet_static:
        base += ["--nondet-static"]
    base += job.extra_cbmc
    return base


def list_properties(job, gb, workdir):
    log = os.path.join(workdir, "log.txt")
    rc, out, err, _ = run(base_cmd(job) + [gb, "--show-properties", "--json-ui"], workdir, 300, job.mem_gb, log)
    try:
        data = json.loads(out.decode("utf-8", "replace"))
    except Exception:
        return None
    for item in data:
        if isinstance(item, dict) and "properties" in item:
            return item["properties"]
    return None


HARD = ("postcondition", "precondition", "loop_invariant_base", "loop_invariant_step", "loop_decreases")


class RestGroup(list):
    """marker: the group of frame / pointer / bounds obligations"""


def split_groups(props, mode=True, rest_chunk=None):
    """Each contract-level obligation gets its own solver run; the mass of frame /
    pointer / bounds obligations shares one.  mode "cut": additionally the cut-point
    assertions (description "compress: ...") get one run per source line (= per round)."""
    hard, rest = [], []
    bylines = {}
    for p in props:
        name = p.get("name", "")
        desc = p.get("description", "")
        c = prop_class({"property": name, "description": desc})
        if mode == "cut" and desc.startswith("compress:"):
            loc = p.get("sourceLocation") or {}
            if re.search(r"\d", desc):  # switch-generated per-round assertion (contracts/compress_switch.h): one run per round number
                key = re.sub(r"schedule word of round", "round", desc)
            else:
                key = (loc.get("function"), loc.get("line"))
            bylines.setdefault(key, []).append(name)
            continue
        if "vf_canary" in desc:
            hard.append([name])
        elif c in HARD and not name.startswith(("free.", "malloc.", "__CPROVER")):
            hard.append([name])
        else:
            rest.append(name)
    groups = hard + list(bylines.values())
    if rest:
        if rest_chunk:  # a single query over all frame / pointer obligations can be much harder than its parts
            for k in range(0, len(rest), rest_chunk):
                groups.append(RestGroup(rest[k:k + rest_chunk]))
        else:
            groups.append(RestGroup(rest))
    return groups


def canary_property(job, gb, workdir):
    props = list_properties(job, gb, workdir) or []
    for p in props:
        if "vf_canary" in p.get("description", "") and p.get("name", "").startswith(job.entry + "."):
            return p.get("name")
    return None


def solve(job, gb, workdir, props=None, tag="", extra=(), solvers=None):
    """One cbmc run (optionally restricted to a list of property names) with the
    job's solver portfolio.  Returns dict(status, reason, results[], solver, solver_s, cmd)."""
    log = os.path.join(workdir, "log%s.txt" % tag)
    base = base_cmd(job) + list(extra)
    if props:
        for p in props:
            base += ["--property", p]
    last_reason = ""
    total = 0.0
    for solver in (solvers or job.solvers):
        tmo = job.timeout
        if ":" in solver:  # "minisat:60" = this back end gets 60 s, then the next one is tried
            solver, t = solver.split(":")
            tmo = int(t)
        cmd = base + SOLVERS[solver] + [gb, "--json-ui"]
        rc, out, err, dt = run(cmd, workdir, tmo, job.mem_gb, log)
        total += dt
        if rc is None:
            last_reason = "timeout(%ds) with %s" % (job.timeout, solver)
            continue
        results, status, msgs = parse_cbmc_json(out)
        txt = " ".join(m for m in msgs if isinstance(m, str))
        if re.search(r"ignoring (forall|exists|quantif)", txt):
            last_reason = "solver ignored a quantifier (%s)" % solver
            continue
        if results is None:
            tail = (out[-400:] + err[-400:]).decode("utf-8", "replace")
            if "bad_alloc" in tail or "Out of memory" in tail or rc in (-6, -9, 134, 137):
                last_reason = "out of memory with %s" % solver
            else:
                last_reason = "no result from cbmc (%s, rc=%s): %s" % (solver, rc, tail)
            continue
        with open(os.path.join(workdir, "result%s.json" % tag), "wb") as f:
            f.write(out)
        if props:
            want = set(props)
            results = [r for r in results if r.get("property") in want]
        return {
            "status": "done", "reason": "", "results": results, "solver": solver, "solver_s": total,
            "cmd": " ".join(cmd[:-2] + ["<instrumented.gb>"]),
        }
    return {"status": "undecided", "reason": last_reason, "results": [], "solver": None, "solver_s": total, "cmd": ""}


def merge(job, res, parts):
    """Fold the outcome of one or more solve() calls into the job result."""
    failed = []
    canary_failed = False
    n = 0
    errors = 0
    classes = {}
    undec = [p for p in parts if p["status"] != "done"]
    for part in parts:
        res["solver_s"] += part["solver_s"]
        if part["solver"]:
            res["solvers_used"][part["solver"]] = res["solvers_used"].get(part["solver"], 0) + 1
            res["solver"] = part["solver"]
            res["cbmc_cmd"] = part["cmd"]
        for r in part["results"]:
            desc = r.get("description", "")
            if "vf_canary" in desc:
                if r.get("status") == "FAILURE":
                    canary_failed = True
                continue
            n += 1
            c = prop_class(r)
            classes[c] = classes.get(c, 0) + 1
            if r.get("status") not in ("SUCCESS", "FAILURE"):
                # ERROR / UNKNOWN: the solver gave up (out of memory ...) - undecided, never a violation
                errors += 1
                continue
            if r.get("status") != "SUCCESS":
                failed.append(
                    {
                        "property": r.get("property"),
                        "description": desc,
                        "status": r.get("status"),
                        "class": c,
                        "location": r.get("sourceLocation", {}),
                        "trace": r.get("trace"),
                    }
                )
    res["obligations"] = n
    res["discharged"] = n - len(failed) - errors
    res["classes"] = classes
    res["failed"] = failed
    if failed:
        res["status"] = "fail"
    elif errors:
        res["status"] = "undecided"
        res["reason"] = "%d obligation(s) without verdict: solver error (out of memory?)" % errors
    elif undec:
        res["status"] = "undecided"
        res["reason"] = "; ".join(sorted(set(p["reason"] for p in undec)))
    elif job.canary and not canary_failed:
        res["status"] = "undecided"
        res["reason"] = "vacuity guard: canary assertion did not fail (unsatisfiable requires or unreachable end)"
    elif n == 0:
        res["status"] = "undecided"
        res["reason"] = "vacuity guard: zero obligations"
    else:
        missing = [c for c in job.expect_classes if classes.get(c, 0) == 0]
        if missing:
            res["status"] = "undecided"
            res["reason"] = "vacuity guard: no obligation of class " + ",".join(missing)
        else:
            res["status"] = "ok"
    return res


def run_job(job, workdir):
    """Unsplit pipeline (prepare + one solve)."""
    res = _new_result(job, workdir)
    t0 = time.time()
    gb, reason = prepare(job, workdir)
    if gb is None:
        res["reason"] = reason
        res["wall_s"] = time.time() - t0
        return res
    part = solve(job, gb, workdir)
    merge(job, res, [part])
    res["wall_s"] = time.time() - t0
    return res


def cleanup(workdir):
    shutil.rmtree(workdir, ignore_errors=True)
