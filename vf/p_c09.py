"""C09 - rolling-hash boundaries depend only on the last w bytes, not on call splitting."""
import os

from . import evidence, native, overlay, rolling, runner


def check(tier, seed, only=None):
    rep = evidence.Report("C09", tier, seed)
    try:
        jobs = rolling.jobs(os.path.join(runner.scratch(), "rolling"))
    except overlay.OverlayError as e:
        # the contract overlay no longer fits the text: the proofs are undecided; the bounded native checks below still run
        rep.add_undecided("extraction broke: %s" % e)
        jobs = []
    if tier == "quick":
        # _rolling_hash2_run takes about ten minutes on 16 cores (110 solver runs): thorough tier
        jobs = [j for j in jobs if j.name != "rolling/run"]
    if only:
        jobs = [j for j in jobs if any(s in j.name for s in only.split(","))]

    def prog(job, r):
        print("  [%s] %-28s %5d/%-5d %6.0fs %s" % (r["status"], job.name, r["discharged"], r["obligations"], r["solver_s"], r["reason"][:200]), flush=True)

    rep.add_job_results(runner.run_jobs(jobs, prog))
    rep.default_replays()
    native_roll(rep, tier, seed)
    rep.assumptions.append("ASSUMED (NASM): _rolling_hash2_run_until_00/_04 satisfy the contract VF_C_RUN_UNTIL proved for the C loop; bounded native differential check attached")
    rep.assumptions.append("the library's table rolling_hash2_table1 is a non-const global: its initial image is proved equal to the pinned table, and no library function writes it (frame clauses of every contract)")
    rep.notes.append("observation: _rolling_hash2_run forms the pointer `buffer - w` (before the start of the caller's buffer) to pass it to the scan; "
                     "CBMC's pointer-overflow check is switched off for this translation unit for that reason; no access below buffer[0] happens (bounds obligations discharged)")
    rep.notes.append("ghost hash stream g_H (contracts/rolling_prelude.h): computed by ghost assignments next to the real updates; the contracts of reset, "
                     "the C scan loop and _rolling_hash2_run are proved for ARBITRARY table contents; init is proved to install the pinned table and its rotation; "
                     "lemma_reset / lemma_step (harness/rolling_lemmas.c) are the induction steps from the recurrence to the closed form over the last w bytes")
    rep.notes.append("closing argument (not machine checked as a whole): induction over the stream positions with lemma_step, started by lemma_reset")
    return rep.finish(
        "goto-instrument --dfcc --enforce-contract <fn> [--replace-call-with-contract ...] --apply-loop-contracts; cbmc --bounds-check --pointer-check --unwind 52|260 --unwinding-assertions",
        "rolling recurrence over history||buffer as a ghost hash stream, one arbitrary witness position; closed form H(e) = XOR_{j<w} rol64(T1[byte(e-j)], j) by two lemmas")


def native_roll(rep, tier, seed):
    # bounded stand-in for the NASM scan loops (assumed to satisfy the contract proved for the C loop)
    try:
        lmax, nseed = (70, 8) if tier == "quick" else (300, 40)
        d = native.rolling_diff(os.path.join(runner.scratch(), "native_roll"), lmax, nseed, seed)
        rep.bounded.append({"what": "_rolling_hash2_run_until_00/_04 (NASM): same (index, hash) as the proved C loop for triggers inside the mask; the contract VF_C_RUN_UNTIL "
                                    "itself for arbitrary triggers; isal_rolling_hash2_init/reset/run end to end over random streams cut into random run calls == the "
                                    "closed-form definition",
                            "label": "bounded", "bound": "w in [1,48], scan length <= w+%d, 5 mask shapes, %d random buffers each; %d random streams < 5 KiB end to end" % (lmax, nseed, lmax * nseed),
                            "evaluations": d["calls"], "distinct_nontrivial": d["cases"], "agree": d["ok"], "cmd": d["cmd"]})
        if not d["ok"]:
            path = os.path.join(rep.replay_dir(), "roll_diff.txt")
            with open(path, "w") as f:
                f.write("native/roll_diff.c on the real assembly from /repo\n$ " + d["cmd"] + "\n" + d["text"])
            first = d["text"].split("\n")[0][:220]
            if first.startswith("E2E"):
                rep.add_violation("native/roll_diff:isal_rolling_hash2_run:end_to_end",
                                  "bounded end-to-end check, real code disagrees with the closed-form definition: " + first, path, True)
            else:
                rep.add_violation("native/roll_diff:_rolling_hash2_run_until:contract",
                                  "assumed contract of the NASM scan loop violated on the real assembly: " + first, path, True)
    except Exception as e:
        rep.add_undecided("native rolling check could not be built/run: %s" % e)


def replay(path):
    print(open(path).read()[:4000])
    return 0
