"""C09 - rolling-hash boundaries depend only on the last w bytes, not on call splitting."""
import os

from . import evidence, native, overlay, rolling, runner


def check(tier, seed, only=None):
    rep = evidence.Report("C09", tier, seed)
    try:
        jobs = rolling.jobs(os.path.join(runner.scratch(), "rolling"))
    except overlay.OverlayError as e:
        raise evidence.Undecided("extraction broke: %s" % e)
    if tier == "quick":
        # the closed-form window hash makes the scan-loop and run() obligations expensive (tens of minutes):
        # quick proves table and init; reset, the scan-loop contract and run() are attempted in the thorough tier
        jobs = [j for j in jobs if j.name in ("rolling/table_pinned", "rolling/init")]
    if only:
        jobs = [j for j in jobs if any(s in j.name for s in only.split(","))]

    def prog(job, r):
        print("  [%s] %-28s %5d/%-5d %6.0fs %s" % (r["status"], job.name, r["discharged"], r["obligations"], r["solver_s"], r["reason"][:200]), flush=True)

    rep.add_job_results(runner.run_jobs(jobs, prog))
    rep.default_replays()
    # bounded stand-in for the NASM scan loops (assumed to satisfy the contract proved for the C loop)
    try:
        lmax, nseed = (70, 8) if tier == "quick" else (300, 40)
        d = native.rolling_diff(os.path.join(runner.scratch(), "native_roll"), lmax, nseed, seed)
        rep.bounded.append({"what": "_rolling_hash2_run_until_00/_04 (NASM) == _rolling_hash2_run_until_base (C, proved)",
                            "label": "bounded", "bound": "w in [1,48], scan length <= w+%d, 5 mask shapes, %d random buffers each" % (lmax, nseed),
                            "evaluations": d["calls"], "distinct_nontrivial": d["cases"], "agree": d["ok"], "cmd": d["cmd"]})
        if not d["ok"]:
            path = os.path.join(rep.replay_dir(), "roll_diff.txt")
            with open(path, "w") as f:
                f.write("native/roll_diff.c on the real assembly from /repo\n$ " + d["cmd"] + "\n" + d["text"])
            rep.add_violation("native/roll_diff:_rolling_hash2_run_until:contract",
                              "assumed contract of the NASM scan loop violated on the real assembly: " + d["text"].split("\n")[0][:200], path, True)
    except Exception as e:
        rep.add_undecided("native rolling check could not be built/run: %s" % e)
    rep.assumptions.append("ASSUMED (NASM): _rolling_hash2_run_until_00/_04 satisfy the contract VF_C_RUN_UNTIL proved for the C loop; bounded native differential check attached")
    rep.assumptions.append("the library's table rolling_hash2_table1 is a non-const global: its initial image is proved equal to the pinned table, and no library function writes it (frame clauses of every contract)")
    rep.notes.append("observation: _rolling_hash2_run forms the pointer `buffer - w` (before the start of the caller's buffer) to pass it to the scan; "
                     "CBMC's pointer-overflow check is switched off for this translation unit for that reason; no access below buffer[0] happens (bounds obligations discharged)")
    rep.notes.append("quick tier proves table pin and init; reset, the scan-loop contract (run_until_base) and _rolling_hash2_run are attempted in the thorough tier only: with the closed-form 48-term window hash they did not finish within 30-60 minutes on this image (minisat) or ran out of memory (cadical), so for them the claim rests on the bounded native checks")
    return rep.finish(
        "goto-instrument --dfcc --enforce-contract <fn> [--replace-call-with-contract ...] --apply-loop-contracts; cbmc --bounds-check --pointer-check --unwind 260 --unwinding-assertions",
        "window hash specified in closed form H(e) = XOR_{j<w} rol64(T1[byte(e-j)], j) over the pinned table; contracts stated for one arbitrary witness position")


def replay(path):
    print(open(path).read()[:4000])
    return 0
