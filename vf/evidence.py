"""Collects results of proof jobs / native checks, prints VIOLATION and KNOWN-FINDING
lines, writes /verif/evidence/<id>.json, decides the exit code."""
import json
import os
import re
import time

from .cbmc import VERIF

TRUSTED_BASE = [
    "CBMC 6.11.0 front end, symbolic execution, DFCC contract instrumentation (goto-instrument --dfcc), bit-blasting",
    "SAT/SMT back ends: minisat 2.2.1 (built in), cadical (built in), kissat, z3 4.8.12, cvc5 1.0 - UNSAT answers trusted",
    "gcc compiles the C text the way CBMC interprets it (x86-64 LP64, little endian, bytewise view of type-punned accesses)",
    "vf/overlay.py inserts contract text only (no original token removed); rules are must-fire-exactly-once",
]


class Undecided(Exception):
    pass


def known_findings():
    """Returns (findings, fixed) from /verif/known_findings.txt"""
    p = os.path.join(VERIF, "known_findings.txt")
    findings, fixed = [], []
    if os.path.exists(p):
        for line in open(p):
            line = line.strip()
            if not line or line.startswith("#"):
                continue
            m = re.match(r"finding:\s+property=(\S+)\s+key=(\S+)\s+(.*)", line)
            if m:
                findings.append({"property": m.group(1), "key": m.group(2), "text": m.group(3)})
                continue
            m = re.match(r"fixed:\s+property=(\S+)\s+(\S+)\s+(.*)", line)
            if m:
                fixed.append({"property": m.group(1), "commit": m.group(2), "text": m.group(3)})
    return findings, fixed


class Report:
    def __init__(self, pid, tier, seed, level="proof"):
        self.pid = pid
        self.tier = tier
        self.seed = seed
        self.level = level
        self.t0 = time.time()
        self.jobs = []  # result dicts of proof jobs
        self.bounded = []  # bounded / native stand-ins (never counted as proved)
        self.static_facts = []
        self.assumptions = []
        self.assumed_contracts = []
        self.notes = []
        self.violations = []  # (key, text, replay_path, has_input)
        self.undecided = []
        self.extra = {}
        self.transferred = []
        self.na = []

    # ---- ingest ---------------------------------------------------------
    def add_job_results(self, results):
        for r in results:
            self.jobs.append(r)
            if r["status"] == "undecided":
                self.undecided.append("%s: %s" % (r["name"], r["reason"]))

    def add_violation(self, key, text, replay_path, has_input):
        self.violations.append({"key": key, "text": text, "replay": replay_path, "has_input": has_input})

    def add_undecided(self, what):
        self.undecided.append(what)

    # ---- output ---------------------------------------------------------
    def replay_dir(self):
        d = os.path.join(VERIF, "replays", self.pid)
        os.makedirs(d, exist_ok=True)
        return d

    def default_replays(self, replay_fn=None):
        """For every failed obligation of every job create a replay file.  replay_fn(job_result,
        failed_obligation, path_prefix) may produce a native replay and return
        (path, has_input); otherwise the file names the obligation and carries the
        verifier's output."""
        for r in self.jobs:
            if r["status"] != "fail":
                continue
            seen = set()
            for f in r["failed"]:
                fn = (f.get("location") or {}).get("function") or ""
                key = "%s:%s:%s" % (r["name"], fn, f["class"])
                if key in seen:
                    continue
                seen.add(key)
                base = os.path.join(self.replay_dir(), re.sub(r"[^A-Za-z0-9_.-]", "_", key))
                path, has_input = None, False
                if replay_fn:
                    try:
                        path, has_input = replay_fn(r, f, base)
                    except Exception as e:  # replay generator trouble must not hide the violation
                        self.notes.append("replay generator failed for %s: %s" % (key, e))
                if path is None:
                    path = base + ".obligation.json"
                    with open(path, "w") as fh:
                        json.dump(
                            {
                                "property": self.pid,
                                "job": r["name"],
                                "failed_obligation": f.get("property"),
                                "class": f["class"],
                                "description": f.get("description"),
                                "location": f.get("location"),
                                "enforced_contract": r.get("enforce"),
                                "replaced_contracts": r.get("replace"),
                                "verifier_cmd": r.get("cbmc_cmd"),
                                "verifier_trace": f.get("trace"),
                                "note": "no native failing input was produced for this obligation",
                            },
                            fh,
                            indent=1,
                            default=str,
                        )
                desc = f.get("description") or ""
                self.add_violation(key, "%s: %s [%s]" % (r["name"], desc[:160], f.get("property")), path, has_input)

    def finish(self, checker_cmd, rule, explanation=None):
        findings, fixed = known_findings()
        mine = [k for k in findings if k["property"] == self.pid]
        printed_known = set()
        real = []
        for v in self.violations:
            hit = None
            for k in mine:
                if k["key"] == v["key"] or (k["key"].endswith("*") and v["key"].startswith(k["key"][:-1])):
                    hit = k
                    break
            if hit:
                if hit["key"] not in printed_known:
                    print("KNOWN-FINDING: property=%s %s" % (self.pid, hit["text"]))
                    printed_known.add(hit["key"])
            else:
                real.append(v)
        for v in real:
            tail = "" if v["has_input"] else " no-failing-input-found"
            print("  violated: %s" % v["text"])
            print("VIOLATION property=%s replay=%s%s" % (self.pid, v["replay"], tail))
        for u in self.undecided:
            print("  undecided: %s" % u[:400])
        obligations = sum(r["obligations"] for r in self.jobs)
        discharged = sum(r["discharged"] for r in self.jobs)
        fns = []
        samples = []
        for r in self.jobs:
            fns.append(
                {
                    "job": r["name"],
                    "function": r.get("enforce") or r.get("entry"),
                    "file": r["meta"].get("file"),
                    "source_sha256": r["meta"].get("sha256"),
                    "aspect": r["meta"].get("aspect"),
                    "status": r["status"],
                    "obligations": r["obligations"],
                    "discharged": r["discharged"],
                    "classes": r["classes"],
                    "back_end": r.get("solver"),
                    "solver_s": round(r["solver_s"], 1),
                    "cached_result": bool(r.get("cached")),
                    "replaced_by_contract": r.get("replace"),
                }
            )
        for r in self.jobs[:6]:
            samples.append(
                {
                    "job": r["name"],
                    "enforced": r.get("enforce"),
                    "obligation_classes": r["classes"],
                    "status": r["status"],
                    "checker": r.get("cbmc_cmd"),
                }
            )
        for v in self.violations[:5]:
            samples.append({"violation": v["text"], "replay": v["replay"]})
        cov = {
            "obligations": obligations,
            "discharged": discharged,
            "checker_cmd": checker_cmd,
            "trusted_base": TRUSTED_BASE + self.extra.get("trusted_base", []),
            "rule": rule,
            "samples": samples or [{"note": "no proof job in this run"}],
            "functions_under_contract": fns,
            "assumed_contracts": self.assumed_contracts,
            "bounded_standins": self.bounded,
            "static_facts": self.static_facts,
            "transferred_by_alpha_equivalence": self.transferred,
            "solver_seconds_total": round(sum(r["solver_s"] for r in self.jobs), 1),
            "undecided": self.undecided,
            "known_findings_matched": sorted(printed_known),
            "notes": self.notes,
        }
        if explanation:
            cov["explanation"] = explanation
        for k, v in self.extra.items():
            if k != "trusted_base":
                cov[k] = v
        if self.level != "proof" or obligations == 0:
            # generic keys for levels other than proof
            n = max(1, sum(b.get("evaluations", 0) for b in self.bounded))
            cov.setdefault("evaluations", n)
            cov.setdefault("distinct_nontrivial", max(2, sum(b.get("distinct_nontrivial", 0) for b in self.bounded)))
        ev = {
            "property_id": self.pid,
            "tier": self.tier,
            "seed": self.seed,
            "level": self.level,
            "coverage": cov,
            "assumptions": self.assumptions,
            "wall_s": round(time.time() - self.t0, 1),
            "violations": len(real),
        }
        evdir = os.environ.get("VF_EVIDENCE_DIR") or os.path.join(VERIF, "evidence")
        os.makedirs(evdir, exist_ok=True)
        with open(os.path.join(evdir, self.pid + ".json"), "w") as f:
            json.dump(ev, f, indent=1, default=str)
        print(
            "property %s: %d obligations, %d discharged, %d violation(s), %d known finding(s), %d undecided"
            % (self.pid, obligations, discharged, len(real), len(printed_known), len(self.undecided))
        )
        if real:
            return 1
        if self.undecided:
            return 2
        return 0
