"""C10: murmur3 body / tail of murmur3_x64_128_internal.c against Appleby's reference."""
import os

from . import overlay
from .cbmc import REPO, VERIF, Job

CUT = """
/* ---- inserted by vf/murmur.py: cut-point.  The packed tail words are ASSERTED equal to the reference
 * packing (g_k1, g_k2, computed by the harness) and then replaced by it, so that the multiplications
 * that follow are syntactically the reference's (no solver can compare two 64-bit multipliers whose
 * inputs are merely provably equal) ---- */
uint64_t g_k1, g_k2;
#if defined(VF_SAFETY) || defined(VF_POST_ONLY)
#define VF_CUT_ASSERT(c, m) ((void) 0)
#else
#define VF_CUT_ASSERT(c, m) __CPROVER_assert(c, m)
#endif
#define VF_CUT_TAIL(a, b)                                                                          \\
        do {                                                                                       \\
                VF_CUT_ASSERT((a) == g_k1 && (b) == g_k2, "tail bytes packed little-endian as in the reference"); \\
                (a) = g_k1;                                                                        \\
                (b) = g_k2;                                                                        \\
        } while (0)
"""


def jobs(workdir, repo=REPO):
    rel = "mh_sha1_murmur3_x64_128/murmur3_x64_128_internal.c"
    text = open(os.path.join(repo, rel)).read()
    rules = [
        overlay.Rule("prelude", r'(?s)\A.*^#include [<"][^\n]*\n(?P<at>)', CUT),
        overlay.Rule("cut:tail", r"^        data2 = hashU\.hash\[1\];\n(?P<at>)", "        VF_CUT_TAIL(data1, data2);\n"),
    ]
    uncut = False
    try:
        out, fired = overlay.apply(text, rules)
    except overlay.OverlayError:
        # the tail was restructured: the cut-point anchor is gone.  Fall back to the UNCUT equivalence of the tail: a wrong tail
        # is refuted quickly (counterexample), a correct restructured one stays undecided (the multipliers, see CUT above)
        out, fired = overlay.apply(text, rules[:1])
        uncut = True
    os.makedirs(workdir, exist_ok=True)
    path = os.path.join(workdir, "murmur3_x64_128_internal.c")
    with open(path, "w") as f:
        f.write(out)
    h = os.path.join(VERIF, "harness", "murmur_h.c")
    inc = [os.path.join(repo, "include"), os.path.join(repo, "mh_sha1_murmur3_x64_128"), os.path.join(repo, "mh_sha1")]
    meta = {"file": rel, "sha256": overlay.sha256_text(text), "aspect": "murmur == reference", "fired": fired, "cost": 30}
    js = []
    eq = dict(includes=inc, unwind=20, timeout=600, solvers=["z3", "cvc5"], checks=["--no-standard-checks"])
    safe = dict(includes=inc, unwind=20, timeout=600, solvers=["minisat"])
    for nb in (0, 1, 2, 3):
        js.append(Job("murmur/block/n=%d" % nb, [h, path], entry="vf_h_block", defines=["VF_NB=%d" % nb],
                      meta=dict(meta, bounded="loop count %d" % nb), **eq))
    js.append(Job("murmur/block/bounds", [h, path], entry="vf_h_block", defines=["VF_NB=3", "VF_SAFETY"], meta=meta, **safe))
    if uncut:
        js.append(Job("murmur/tail/whole-uncut", [h, path], entry="vf_h_tail", defines=["VF_POST_ONLY"], includes=inc, unwind=20, timeout=400,
                      solvers=["z3", "cvc5", "cadical"], checks=["--no-standard-checks"],
                      meta=dict(meta, note="cut-point anchor not found: uncut equivalence (refutation attempt)")))
        js.append(Job("murmur/tail/bounds", [h, path], entry="vf_h_tail", defines=["VF_SAFETY"], meta=meta, **safe))
        return js
    # the cut assertion (byte packing, no multiplier) on SAT; what follows the cut on SMT
    js.append(Job("murmur/tail/cut", [h, path], entry="vf_h_tail", defines=["VF_CUT_ONLY"], includes=inc, unwind=20, timeout=900,
                  solvers=["minisat", "cadical"], checks=["--no-standard-checks"], meta=meta))
    js.append(Job("murmur/tail/post", [h, path], entry="vf_h_tail", defines=["VF_POST_ONLY"], meta=meta, **eq))
    js.append(Job("murmur/tail/bounds", [h, path], entry="vf_h_tail", defines=["VF_SAFETY"], meta=meta, **safe))
    return js
