"""Contract overlay: insert contract text into a scratch copy of a real /repo file.

Every rule must fire exactly `count` times (default 1); otherwise OverlayError
is raised and the caller exits 2 ("extraction broke") - never a violation.
Nothing of the original text is removed: rules only insert text at a position
found by a regular expression.
"""
import hashlib
import re


class OverlayError(Exception):
    pass


class Rule:
    def __init__(self, name, pattern, insert, where="after", count=1, flags=re.M):
        """pattern: regex; the text `insert` is placed before/after the match (or
        after group 'at' if the pattern has a named group 'at': text is inserted
        right after that group's end).  `insert` may be a function of the match object
        (used for the per-round cut points, whose text names the matched variables)."""
        self.name = name
        self.pattern = pattern
        self.insert = insert
        self.where = where
        self.count = count
        self.flags = flags


def func_def_rule(fname, macro, count=1):
    """Insert ` macro ` between the declarator's closing paren and the body's `{`
    of the *definition* of function fname (line starting with the name)."""
    pat = r"^" + re.escape(fname) + r"\((?:[^(){};]|\([^()]*\))*\)(?P<at>)\s*\n\{"
    return Rule("contract:" + fname, pat, "\n" + macro + "\n", count=count)


def hoist_decl_rule(fname, decl_regex, decl_text, name):
    """The ONE rule family that touches original tokens: a block-scoped declaration
    without initialiser inside a contract loop is commented out in place and
    re-declared at function scope (DFCC cannot put block-scoped locals of a contract
    loop into the loop's write set).  Semantics are unchanged: the variable is
    assigned before every use (checked by CBMC: reading it uninitialised would be
    a nondet value and the functional post-condition would fail)."""
    r1 = Rule(name + ":open", decl_regex.replace("(?P<decl>", "(?P<at>)(?P<decl>"), "/* hoisted by overlay: ")
    r1.scope = fname
    r2 = Rule(name + ":close", decl_regex + r"(?P<at>)", " */")
    r2.scope = fname
    pat = r"^" + re.escape(fname) + r"\((?:[^(){};]|\([^()]*\))*\)\s*\n\{(?P<at>)"
    r3 = Rule(name + ":redecl", pat, "\n        " + decl_text + " /* hoisted by overlay */")
    return [r1, r2, r3]


def nth_loop_rule(fname, loop_regex, macro, name=None):
    """Insert the loop contract macro right after the loop header matched by
    loop_regex (must contain group 'at' before the `{`), searching only inside
    the body of function fname."""
    r = Rule(name or ("loop:" + fname), loop_regex, " " + macro + " ")
    r.scope = fname
    return r


def function_span(text, fname):
    m = re.search(r"^" + re.escape(fname) + r"\((?:[^(){};]|\([^()]*\))*\)\s*\n\{", text, re.M)
    if not m:
        raise OverlayError("function %s: definition not found" % fname)
    i = m.end()
    depth = 1
    while depth and i < len(text):
        c = text[i]
        if c == "{":
            depth += 1
        elif c == "}":
            depth -= 1
        i += 1
    if depth:
        raise OverlayError("function %s: unbalanced braces" % fname)
    return m.start(), i


def apply(text, rules):
    """Returns (new_text, fired) ; fired = list of rule names with line numbers."""
    inserts = []  # (pos, text, name)
    fired = []
    for r in rules:
        lo, hi = 0, len(text)
        if getattr(r, "scope", None):
            lo, hi = function_span(text, r.scope)
        ms = [m for m in re.finditer(r.pattern, text, r.flags) if lo <= m.start() < hi]
        if len(ms) != r.count:
            raise OverlayError(
                "rule %s: expected %d match(es), found %d" % (r.name, r.count, len(ms))
            )
        for m in ms:
            if "at" in m.re.groupindex:
                pos = m.end("at")
            elif r.where == "before":
                pos = m.start()
            else:
                pos = m.end()
            ins = r.insert(m) if callable(r.insert) else r.insert
            inserts.append((pos, ins, r.name))
            fired.append({"rule": r.name, "line": text.count("\n", 0, pos) + 1})
    inserts.sort(key=lambda t: t[0], reverse=True)
    out = text
    for pos, ins, _ in inserts:
        out = out[:pos] + ins + out[pos:]
    return out, fired


def sha256_text(text):
    return hashlib.sha256(text.encode("utf-8", "replace")).hexdigest()


def strip_inserts_equal(original, annotated, rules_inserts):
    """Self-check used by the test suite: removing the inserted strings from the
    annotated text gives back the original text."""
    t = annotated
    for ins in rules_inserts:
        t = t.replace(ins, "", 1)
    return t == original


def require_loop_count(text, fname, expected):
    """A function proved with loop contracts must have exactly the loops the contract rules annotate: a loop the rules do
    not know (changed code) would surface as failed assigns obligations of DFCC, which is an incomplete annotation and not
    a violation -> OverlayError (exit 2)."""
    lo, hi = function_span(text, fname)
    body = re.sub(r"/\*.*?\*/|//[^\n]*", "", text[lo:hi], flags=re.S)
    found = len(re.findall(r"\b(?:for|while)\s*\(", body))
    found -= len(re.findall(r"\}\s*while\s*\(", body))  # do { } while: counted once (the `do`)
    found += len(re.findall(r"\bdo\b", body))
    if found != expected:
        raise OverlayError("%s has %d loop(s), the loop contracts cover %d" % (fname, found, expected))
