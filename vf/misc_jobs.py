"""Jobs shared by the roll-up properties C08 / C18 / C20."""
import glob
import hashlib
import os
import re
import subprocess

from .cbmc import REPO, VERIF, Job


def memcpy_jobs(nmax=128):
    src = os.path.join(VERIF, "harness", "memcpy_inline_h.c")
    hdr = os.path.join(REPO, "include", "memcpy_inline.h")
    sha = hashlib.sha256(open(hdr, "rb").read()).hexdigest()
    js = []
    for n in range(0, nmax + 1):
        js.append(Job("memcpy_inline/n=%d" % n, [src], entry="vf_h_all", includes=[os.path.join(REPO, "include")],
                      defines=["VF_N=%d" % n], unwind=140, timeout=600,
                      meta={"file": "include/memcpy_inline.h", "sha256": sha, "aspect": "copy-helpers", "cost": 1}))
    return js


INIT2 = r"""
/* two-run non-interference: the object after init is a function of the declared inputs only */
#include <stdint.h>
#include <string.h>
%(include)s
#ifdef VF_WITH_CANARY
#define VF_CANARY() __CPROVER_assert(0, "vf_canary: end of harness reachable")
#else
#define VF_CANARY() ((void) 0)
#endif
void vf_h_init2(void)
{
        %(type)s a, b;            /* uninitialised: arbitrary, different previous contents */
        %(extra_decl)s
        %(fn)s(&a%(extra_arg)s);
        %(fn)s(&b%(extra_arg)s);
        size_t k;
        __CPROVER_assume(k < sizeof(a));
        __CPROVER_assert(((const uint8_t *) &a)[k] == ((const uint8_t *) &b)[k],
                         "every byte of the initialised object is independent of its previous contents");
        VF_CANARY();
}
"""


def init2_jobs(workdir):
    os.makedirs(workdir, exist_ok=True)
    items = []
    for p in sorted(glob.glob(os.path.join(REPO, "*_mb", "*_mgr_init_*.c"))):
        t = open(p).read()
        m = re.search(r"^(_\w+)\((ISAL_\w+) \*state\)", t, re.M)
        if m and "_sb_mgr_" in m.group(1):
            continue  # the single-buffer manager is stateless: see sb_stateless_job()
        if m:
            alg = os.path.basename(os.path.dirname(p))[:-3]
            items.append((p, m.group(1), m.group(2), '#include "%s_mb_internal.h"' % alg, "", ""))
    for d, fn, ty, extra in (("mh_sha1", "_mh_sha1_init", "struct isal_mh_sha1_ctx", False),
                             ("mh_sha256", "_mh_sha256_init", "struct isal_mh_sha256_ctx", False),
                             ("mh_sha1_murmur3_x64_128", "_mh_sha1_murmur3_x64_128_init", "struct isal_mh_sha1_murmur3_x64_128_ctx", True)):
        p = os.path.join(REPO, d, d + ".c")
        items.append((p, fn, ty, '#include "%s_internal.h"' % d, "uint64_t seed;" if extra else "", ", seed" if extra else ""))
    js = []
    for p, fn, ty, inc, ed, ea in items:
        h = os.path.join(workdir, "init2_%s.c" % fn)
        with open(h, "w") as f:
            f.write(INIT2 % {"include": inc, "type": ty, "fn": fn, "extra_decl": ed, "extra_arg": ea})
        rel = os.path.relpath(p, REPO)
        sha = hashlib.sha256(open(p, "rb").read()).hexdigest()
        js.append(Job("init2/%s" % fn, [h, p], entry="vf_h_init2",
                      includes=[os.path.join(REPO, "include"), os.path.dirname(p), os.path.join(REPO, "mh_sha1")],
                      defines=["SAFE_PARAM", "NDEBUG"], unwind=300, timeout=900,
                      meta={"file": rel, "sha256": sha, "aspect": "two-run non-interference", "cost": 5}))
    return js


SB = r"""
/* the SHA-512 single-buffer "manager" keeps no state: init does nothing, so submit and flush must not
 * read the manager object at all - it is passed as an INVALID pointer here (any access is flagged) */
#include <stdint.h>
#include <stdlib.h>
#include "sha512_mb_internal.h"
#ifdef VF_WITH_CANARY
#define VF_CANARY() __CPROVER_assert(0, "vf_canary: end of harness reachable")
#else
#define VF_CANARY() ((void) 0)
#endif
unsigned vf_kernel_calls;
void _sha512_sse4(const void *data, void *digest, uint64_t len) { vf_kernel_calls++; }
void vf_h_sb(void)
{
        char *p = malloc(1);
        __CPROVER_assume(p != 0);
        ISAL_SHA512_MB_JOB_MGR *state = (ISAL_SHA512_MB_JOB_MGR *) (p + 1); /* one past the end: invalid */
        ISAL_SHA512_JOB *job = malloc(sizeof(*job));
        __CPROVER_assume(job != 0);
        vf_kernel_calls = 0;
        _sha512_sb_mgr_init_sse4(state);
        ISAL_SHA512_JOB *r = _sha512_sb_mgr_submit_sse4(state, job);
        __CPROVER_assert(r == job && vf_kernel_calls == 1, "submit hashes synchronously and hands the job straight back");
        __CPROVER_assert(_sha512_sb_mgr_flush_sse4(state) == 0, "flush has nothing to drain");
        VF_CANARY();
}
"""


def sb_stateless_job(workdir):
    os.makedirs(workdir, exist_ok=True)
    h = os.path.join(workdir, "sb_stateless.c")
    with open(h, "w") as f:
        f.write(SB)
    srcs = [os.path.join(REPO, "sha512_mb", x) for x in ("sha512_sb_mgr_init_sse4.c", "sha512_sb_mgr_submit_sse4.c", "sha512_sb_mgr_flush_sse4.c")]
    sha = hashlib.sha256(b"".join(open(x, "rb").read() for x in srcs)).hexdigest()
    return Job("init2/sha512_sb_mgr_stateless", [h] + srcs, entry="vf_h_sb", includes=[os.path.join(REPO, "include"), os.path.join(REPO, "sha512_mb")],
               defines=["SAFE_PARAM", "NDEBUG"], unwind=8, timeout=300,
               meta={"file": "sha512_mb/sha512_sb_mgr_{init,submit,flush}_sse4.c", "sha256": sha, "aspect": "stateless manager", "cost": 1})


ALLOW_MUTABLE = re.compile(r"(_dispatched$|^self_test_status$|^self_tests_status$)")


def writable_inventory(workdir, repo=REPO):
    """Compile every library C file of the x86_64 build and assemble every .asm from the WORKING TREE;
    list the symbols that live in writable sections (supporting static fact for C18)."""
    os.makedirs(workdir, exist_ok=True)
    mk = open(os.path.join(repo, "Makefile.am")).read()
    srcs = set()
    for sub in sorted(glob.glob(os.path.join(repo, "*", "Makefile.am"))):
        t = open(sub).read()
        t = t.replace("\\\n", " ")
        for line in t.split("\n"):
            m = re.match(r"\s*(lsrc|lsrc_x86_64|lsrc_\w+base\w*|lsrc_sha256|lsrc_mh_sha256|lsrc_murmur|lsrc_stitch|lsrc_mh_sha1_base)\s*\+?=\s*(.*)", line)
            if m and "aarch64" not in m.group(1):
                for tok in m.group(2).split():
                    if tok.endswith((".c", ".asm")) and os.path.exists(os.path.join(repo, tok)):
                        srcs.add(tok)
    res = {"mutable": [], "constants_in_writable": [], "unexpected": [], "objects": 0}
    cmds = []
    for s in sorted(srcs):
        o = os.path.join(workdir, s.replace("/", "_") + ".o")
        if s.endswith(".c"):
            cmds.append((s, o, ["gcc", "-O1", "-c", "-DSAFE_DATA", "-DSAFE_PARAM", "-DNDEBUG", "-w", "-I" + os.path.join(repo, "include"),
                               "-I" + os.path.join(repo, os.path.dirname(s)), "-I" + os.path.join(repo, "mh_sha1"), os.path.join(repo, s), "-o", o]))
        else:
            cmds.append((s, o, ["nasm", "-f", "elf64", "-DAS_FEATURE_LEVEL=10", "-DHAVE_AS_KNOWS_AVX512", "-DHAVE_AS_KNOWS_SHANI", "-DSAFE_DATA", "-DSAFE_PARAM",
                               "-I" + os.path.join(repo, "include") + "/", "-I" + os.path.join(repo, os.path.dirname(s)) + "/",
                               "-I" + os.path.join(repo, "aes") + "/", "-I" + os.path.join(repo, "intel-ipsec-mb", "lib") + "/", "-I" + repo + "/",
                               os.path.join(repo, s), "-o", o]))
    import concurrent.futures as cf

    def run(c):
        r = subprocess.run(c[2], capture_output=True, text=True)
        return c, r.returncode, r.stderr[-200:]

    failed = []
    with cf.ThreadPoolExecutor(max_workers=16) as ex:
        for c, rc, err in ex.map(run, cmds):
            if rc:
                failed.append((c[0], err))
    res["build_failures"] = failed
    for s, o, _ in cmds:
        if not os.path.exists(o):
            continue
        res["objects"] += 1
        r = subprocess.run(["nm", "--defined-only", o], capture_output=True, text=True)
        for line in r.stdout.split("\n"):
            parts = line.split()
            if len(parts) != 3:
                continue
            addr, kind, name = parts
            if kind in "dDbBC":
                if ALLOW_MUTABLE.search(name):
                    res["mutable"].append("%s:%s" % (s, name))
                elif s.endswith(".c") and not re.search(r"slver", name):
                    res["unexpected"].append("%s:%s(%s)" % (s, name, kind))
                else:
                    res["constants_in_writable"].append("%s:%s" % (s, name))
    return res
