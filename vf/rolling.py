"""C09: rolling_hash/rolling_hash2.c and rolling_hashx_base.c."""
import os
import re

from . import overlay
from .cbmc import REPO, VERIF, Job

HARNESS = r"""
#include <stdlib.h>
#ifdef VF_WITH_CANARY
#define VF_CANARY() __CPROVER_assert(0, "vf_canary: end of harness reachable")
#else
#define VF_CANARY() ((void) 0)
#endif
/* a state with ARBITRARY tables, history and hash: run / run_until / reset are proved for any table content
 * (what the tables hold is the post-condition of _rolling_hash2_init, job rolling/init) */
static struct isal_rh_state2 *vf_state(void)
{
        struct isal_rh_state2 *st = malloc(sizeof(*st));
        __CPROVER_assume(st != 0 && g_w >= 1 && g_w <= 48);
        st->w = g_w;
        g_t1 = st->table1;
        g_t2 = st->table2;
        return st;
}
void vf_h_init(void)
{
        struct isal_rh_state2 *st = malloc(sizeof(*st));
        __CPROVER_assume(st != 0);
        /* the library's table is a (non-const) global initialised to the pinned values: proved by job
         * rolling/table_pinned on the initial image; no library function writes it (frame clauses) */
        for (unsigned t = 0; t < 256; t++)
                rolling_hash2_table1[t] = vf_T1[t];
        uint32_t w;
        int r = _rolling_hash2_init(st, w);
        VF_CANARY();
}
void vf_h_reset(void)
{
        struct isal_rh_state2 *st = vf_state();
        uint8_t *init = malloc(g_w); /* exactly w readable bytes */
        __CPROVER_assume(init != 0 && g_j < g_w);
        g_histbase = st->history; g_dw = &st->history[g_j];
        g_R[0] = 0;
        _rolling_hash2_reset(st, init);
        VF_CANARY();
}
void vf_h_run(void)
{
        struct isal_rh_state2 *st = vf_state();
        g_buf = malloc(g_len);
        g_H = malloc(((size_t) g_len + 2) * sizeof(uint64_t));
        __CPROVER_assume(g_buf != 0 && g_H != 0);
        for (unsigned j = 0; j < 48; j++)
                g_hist0[j] = st->history[j]; /* snapshot of the (arbitrary) history on entry */
        __CPROVER_assume(g_j < g_w);
        g_histbase = st->history; g_dw = &st->history[g_j];
        g_H[0] = st->hash;
        uint32_t mask, trigger;
        uint32_t *offset = malloc(sizeof(uint32_t));
        __CPROVER_assume(offset != 0);
        int r = _rolling_hash2_run(st, g_buf, g_len, mask, trigger, offset);
        VF_CANARY();
}
void vf_h_table(void)
{
        for (unsigned t = 0; t < 256; t++)
                __CPROVER_assert(rolling_hash2_table1[t] == vf_T1[t], "rolling_hash2_table1 equals the pinned table");
        VF_CANARY();
}
void vf_h_run_until(void)
{
        struct isal_rh_state2 *st = vf_state();
        g_buf = malloc(g_len);
        g_H = malloc(((size_t) g_len + 2) * sizeof(uint64_t));
        __CPROVER_assume(g_buf != 0 && g_H != 0);
        uint32_t idx; int max_idx; uint64_t h, mask, trigger;
        __CPROVER_assume(g_base <= g_len);
        _rolling_hash2_run_until_base(&idx, max_idx, st->table1, st->table2, g_buf + g_base, g_buf + g_base - g_w, h, mask, trigger);
        VF_CANARY();
}
"""


def annotate(workdir, repo=REPO):
    rel = "rolling_hash/rolling_hash2.c"
    text = open(os.path.join(repo, rel)).read()
    rules = [
        overlay.Rule("prelude", r'(?s)\A.*^#include "[^\n]*\n(?P<at>)', '\n#include "rolling_prelude.h"\n'),
        overlay.func_def_rule("_rolling_hash2_run_until_base", "VF_C_RUN_UNTIL"),
        overlay.func_def_rule("_rolling_hash2_init", "VF_C_RH_INIT"),
        overlay.func_def_rule("_rolling_hash2_reset", "VF_C_RH_RESET"),
        overlay.func_def_rule("_rolling_hash2_run", "VF_C_RH_RUN"),
        # ghost: loop-entry value of i (the contract loops start at *idx)
        overlay.Rule("ghost:i0", r"(?m)^(?P<x>        int i = \*idx;\n)(?P<at>)", "        int vf_i0 = i; /* ghost */\n"),
        overlay.Rule("loop:run_until", r"for \(; i < max_idx; i\+\+\)(?P<at>) \{", " VF_L_RUN_UNTIL ", count=2),
        # ghost hash stream: one ghost assignment next to every real rolling update
        overlay.Rule("ghost:run_until", r"for \(; i < max_idx; i\+\+\) \{(?P<at>)", " VF_G_RU(i);", count=2),
        overlay.Rule("ghost:run", r"(?P<at>)[ \t]*hash = hash_fn\(state, hash, buffer\[i\], state->history\[i\]\);", "                VF_G_RUN(i);\n"),
        overlay.nth_loop_rule("_rolling_hash2_reset", r"for \(i = 0; i < w; i\+\+\) \{(?P<at>)", "VF_G_RESET(i);", name="ghost:reset"),
        overlay.nth_loop_rule("_rolling_hash2_reset", r"for \(i = 0; i < w; i\+\+\)(?P<at>) \{", "VF_L_RESET", name="loop:reset"),
        # the piecewise scan loop of _rolling_hash2_run (fix 1bd20b9)
        overlay.nth_loop_rule("_rolling_hash2_run", r"for \(;;\)(?P<at>) \{", "VF_L_RUN", name="loop:run"),
        overlay.Rule("ghost:base", r"(?P<at>)[ \t]*hash = _rolling_hash2_run_until\(&i, n, ", "                g_base = base; /* ghost */\n"),
        overlay.nth_loop_rule("_rolling_hash2_run", r"for \(i = 0; i < w; i\+\+\)(?P<at>) \{", "VF_L_RUN0", name="loop:run0"),
    ]
    out, fired = overlay.apply(text, rules)
    # every loop of a function proved with loop contracts must carry one: a loop the rules do not know (changed code) means
    # the annotation is incomplete -> undecided (exit 2), not a violation
    for fn, nloops in (("_rolling_hash2_run", 2), ("_rolling_hash2_reset", 1), ("_rolling_hash2_run_until_base", 2)):
        lo, hi = overlay.function_span(text, fn)
        found = len(re.findall(r"\b(?:for|while)\s*\(", text[lo:hi]))
        if found != nloops:
            raise overlay.OverlayError("%s has %d loops, the loop contracts cover %d" % (fn, found, nloops))
    out += HARNESS
    os.makedirs(workdir, exist_ok=True)
    path = os.path.join(workdir, "rolling_hash2.c")
    with open(path, "w") as f:
        f.write(out)
    return path, fired, overlay.sha256_text(text), rel


def jobs(workdir, repo=REPO):
    path, fired, sha, rel = annotate(workdir, repo)
    inc = [os.path.join(repo, "include"), os.path.join(repo, "rolling_hash"), os.path.join(VERIF, "contracts"), os.path.join(VERIF, "spec")]
    meta = {"file": rel, "sha256": sha, "aspect": "rolling", "fired": fired}
    small = dict(includes=inc, defines=["SAFE_PARAM"], unwind=52, checks=["--bounds-check", "--pointer-check"])  # `buffer - w` is formed on purpose
    # the ghost hash stream is a symbolic-size array indexed by 64-bit expressions: the SMT back ends decide each contract-level
    # obligation in seconds (array theory), SAT needs minutes to never; one solver run per obligation (split), the mass of
    # pointer / frame obligations goes to SAT
    smt = dict(split=True, solvers=["minisat:40", "z3:60", "cvc5:90", "cadical:900", "minisat"], rest_solvers=["minisat", "cadical"])
    lem = os.path.join(VERIF, "harness", "rolling_lemmas.c")
    lmeta = {"file": "(lemma, code independent) harness/rolling_lemmas.c", "sha256": overlay.sha256_text(open(lem).read()), "aspect": "rolling-lemma"}
    js = [
        Job("rolling/table_pinned", [path], entry="vf_h_table", includes=inc, defines=["SAFE_PARAM"], unwind=260, timeout=300,
            meta=dict(meta, cost=1)),
        Job("rolling/init", [path], entry="vf_h_init", enforce="_rolling_hash2_init", timeout=900, includes=inc, defines=["SAFE_PARAM"],
            unwind=260, checks=["--bounds-check", "--pointer-check"], expect_classes=["postcondition"], meta=dict(meta, cost=30)),
        Job("rolling/run_until_base", [path], entry="vf_h_run_until", enforce="_rolling_hash2_run_until_base", loop_contracts=True,
            timeout=600, expect_classes=["loop_invariant_step", "postcondition"], meta=dict(meta, cost=100), mem_gb=16, **smt, **small),
        Job("rolling/reset", [path], entry="vf_h_reset", enforce="_rolling_hash2_reset", replace=["memcpy"], timeout=900, loop_contracts=True,
            mem_gb=16, expect_classes=["postcondition"], meta=dict(meta, cost=100),
            **dict(smt, solvers=["minisat:30", "cadical:700", "z3:60", "cvc5:90", "minisat"]), **small),
        Job("rolling/run", [path], entry="vf_h_run", enforce="_rolling_hash2_run", replace=["_rolling_hash2_run_until", "memcpy", "memmove"],
            loop_contracts=True, timeout=1500, mem_gb=20, object_bits=12,
            expect_classes=["postcondition", "precondition", "loop_invariant_step"], meta=dict(meta, cost=300),
            **dict(smt, rest_solvers=["minisat:120", "cadical:600", "z3:300", "minisat"], rest_chunk=30), **small),
        Job("rolling/lemma_reset", [lem], entry="lemma_reset", unwind=50, timeout=900, solvers=["minisat", "cadical", "z3"], checks=[],
            expect_classes=["assertion"], meta=dict(lmeta, cost=20)),
        Job("rolling/lemma_step", [lem], entry="lemma_step", unwind=50, timeout=900, solvers=["minisat", "cadical", "z3"], checks=[],
            expect_classes=["assertion"], meta=dict(lmeta, cost=20)),
    ]
    return js
