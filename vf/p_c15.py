"""C15 - hash length accounting stays exact across the 2^29- and 2^32-byte totals."""
from . import evidence, p_ctx_common


def check(tier, seed, only=None):
    rep = evidence.Report("C15", tier, seed)
    p_ctx_common.run_ctx(rep, tier, [
        # length field of the padding == 8*total for ALL total < 2^61, every residue (full functional contract)
        ("hash_pad", "leaf", "all", "all"),
        # total_length == old total (0 at FIRST) + len as 64-bit values; byte->block conversions; layout invariant
        ("submit", "tape", "reference_loose", "reference"),
        ("resubmit", "tape", "reference_loose", "reference"),
    ], only, extra=p_ctx_common.base_jobs(tier, ("update", "final", "submit")))
    rep.default_replays()
    rep.assumptions.append(
        "ASSUMED (NASM): the lane managers keep `len<<4|lane` exact for job.len < 2^28 blocks (the C layer proves it "
        "never hands over more than 2^26 blocks and never truncates the count)")
    return rep.finish(p_ctx_common.CHECKER,
                      "hash_pad: every context file; submit/resubmit tape aspect (stream layout with 64-bit totals < 2^61): "
                      "reference instance + every textually different instance (quick), one instance per parameter set (thorough)")


def replay(path):
    print(open(path).read()[:4000])
    return 0
