"""C05 - mh_sha1 / mh_sha256 equal the multi-hash definition for any update segmentation."""
import os

from . import evidence, mh, overlay, runner


def check(tier, seed, only=None, variants=("mh_sha1", "mh_sha256"), pid="C05"):
    rep = evidence.Report(pid, tier, seed)
    jobs = []
    try:
        for v in variants:
            jobs += mh.build(v, os.path.join(runner.scratch(), v))
            jobs.append(mh.init_job(v, os.path.join(runner.scratch(), v + "_init")))
    except overlay.OverlayError as e:
        raise evidence.Undecided("extraction broke: %s" % e)
    if pid == "C10":
        from . import murmur
        try:
            jobs += murmur.jobs(os.path.join(runner.scratch(), "murmur"))
        except overlay.OverlayError as e:
            rep.add_undecided("extraction broke (murmur): %s" % e)
    if tier == "quick":
        # every instantiation #includes the SAME template text: quick proves the stand-alone (base) and the
        # avx2 instantiation, thorough all five
        keep = ("/base/", "/avx2/", "murmur/", "/init")
        for j in jobs:
            if not any(k in j.name for k in keep):
                rep.transferred.append({"function": j.name, "proved_instance": j.name.rsplit("/", 2)[0] + "/avx2/...",
                                        "why": "same template file instantiated by #include with a different block function name"})
        jobs = [j for j in jobs if any(k in j.name for k in keep)]
    # compression functions of the C side against FIPS 180-4 (per-round cut points, vf/compress.py):
    # the outer hashes used by finalize; thorough adds the C block functions for some segment columns
    from . import compress
    try:
        ckeys = ["sha1_for_mh"] + (["sha256_for_mh"] if pid == "C05" else [])
        jobs += compress.jobs(os.path.join(runner.scratch(), "compress"), ckeys)
        if tier != "quick" and pid == "C05":
            jobs += compress.jobs(os.path.join(runner.scratch(), "compress"), ["mh_sha1_block"], segs=(0, 15))
            jobs += compress.jobs(os.path.join(runner.scratch(), "compress"), ["mh_sha256_block"], segs=(7,))
    except overlay.OverlayError as e:
        raise evidence.Undecided("extraction broke: %s" % e)
    if only:
        jobs = [j for j in jobs if any(s in j.name for s in only.split(","))]

    def prog(job, r):
        print("  [%s] %-34s %4d/%-4d %6.0fs %s" % (r["status"], job.name, r["discharged"], r["obligations"], r["solver_s"], r["reason"][:200]), flush=True)

    rep.add_job_results(runner.run_jobs(jobs, prog))
    rep.default_replays()
    if pid == "C05":
        # bounded stand-in for what the tape proofs assume about the block functions and the outer hash
        from . import native
        try:
            for opt in ("-O1", "-O2"):
                d = native.mh_diff(os.path.join(runner.scratch(), "native_mh" + opt), 300 if tier == "quick" else 5000, seed, opt=opt)
                rep.bounded.append({"what": "_mh_shaN_block_base == multi-hash definition (reference from FIPS 180-4); NASM block functions == block_base; "
                                            "outer hash == standard hash; init/update/finalize with random segmentation == definition; library C files compiled " + opt
                                            + (" (guards the assumption that gcc compiles the type-punned stores the way CBMC reads them)" if opt == "-O2" else ""),
                                    "label": "bounded", "bound": "%d random iterations, 1..4 blocks, offsets 0..63, streams < 8 KiB" % (300 if tier == "quick" else 5000),
                                    "evaluations": d["calls"], "distinct_nontrivial": d["cases"], "agree": d["ok"], "cmd": d["cmd"]})
                if not d["ok"]:
                    path = os.path.join(rep.replay_dir(), "mh_diff%s.txt" % opt)
                    with open(path, "w") as f:
                        f.write("native/mh_diff.c on the real code from /repo\n$ " + d["cmd"] + "\n" + d["text"])
                    rep.add_violation("native/mh_diff%s:block:contract" % opt, "assumed contract violated on the real code (%s): " % opt + d["text"].split("\n")[0][:200], path, True)
        except Exception as e:
            rep.add_undecided("native mh check could not be built/run: %s" % e)
    else:
        # bounded stand-in for the assumed stitched NASM block functions, and a concrete-input net under the murmur proofs
        from . import native
        try:
            lmax, reps = (2200, 2) if tier == "quick" else (66000, 3)
            d = native.mur_diff(os.path.join(runner.scratch(), "native_mur"), lmax, reps, seed)
            rep.bounded.append({"what": "isal_mh_sha1_murmur3_x64_128_{init,update,finalize} on the real code (dispatched family): murmur half == "
                                        "MurmurHash3_x64_128 (Appleby's reference), mh_sha1 half == stand-alone isal_mh_sha1; random seeds, "
                                        "segmentations (incl. empty pieces) and alignments",
                                "label": "bounded", "bound": "every length 0..1100, then to %d; %d repetitions" % (lmax, reps),
                                "evaluations": d["calls"], "distinct_nontrivial": d["cases"], "agree": d["ok"], "cmd": d["cmd"]})
            if not d["ok"]:
                path = os.path.join(rep.replay_dir(), "mur_diff.txt")
                with open(path, "w") as f:
                    f.write("native/mur_diff.c on the real code from /repo\n$ " + d["cmd"] + "\n" + d["text"])
                rep.add_violation("native/mur_diff:stitched:end_to_end", "bounded end-to-end check, real code disagrees with the definition: "
                                  + d["text"].split("\n")[0][:220], path, True)
        except Exception as e:
            rep.add_undecided("native murmur check could not be built/run: %s" % e)
        rep.assumptions.append("ASSUMED: stitched block functions _mh_sha1_murmur3_x64_128_block_* = mh_sha1 block function || 64 murmur blocks per 1024 bytes, in order; "
                               "_murmur3_x64_128_block/_tail are PROVED equal to Appleby's MurmurHash3_x64_128 body step / tail + finalisation (jobs murmur/*: "
                               "body per block with the loop count bounded by 3 - the loop body is the same code for every block -, tail for every length with a "
                               "substituting cut-point after the byte packing; unsigned 32-bit length)")
    rep.assumptions.append("ASSUMED: block functions _mh_shaN_block_{base,sse,avx,avx2,avx512} hash n*1024 bytes as 16 interleaved standard compressions (round-robin dealing of 32-bit words); only the tape (which bytes, in which order, with which padding) is proved here")
    rep.notes.append("outer hash: the block functions _sha1_single_for_mh_sha1 / sha256_single_for_mh_sha256 are PROVED equal to the FIPS 180-4 compression "
                     "functions (jobs compress/*_for_mh); the byte loop around them (sha1_for_mh_sha1 / sha256_for_mh_sha256: padding of the 320/512-byte "
                     "segment-digest matrix) is covered by the bounded native check only")
    rep.notes.append("C block functions mh_sha1_single / mh_sha256_single: thorough tier proves segment columns 0 and 15 (mh_sha1, per-lane macro text) and 7 "
                     "(mh_sha256, lanes are a loop) equal to the FIPS compression of the de-interleaved segment block; about 2 CPU hours per segment, so the "
                     "other columns rest on the bounded native check")
    rep.assumptions.append("domain: total stream length < 2^32 bytes (the property's domain; beyond it `len + partial_block_len` wraps in 32 bits)")
    rep.assumptions.append("libc memcpy/memset with run-time length: witness contracts over the whole context object (contracts/mh_prelude.h)")
    return rep.finish(
        "annotated template copies + the instantiating TU copied next to them; goto-instrument --dfcc --enforce-contract <fn> --replace-call-with-contract <block fn, memcpy, memset, outer hash>; cbmc --bounds-check --pointer-check",
        "update / tail / finalize of every family instantiation: arbitrary stream position witness, every total < 2^32, every call length")


def replay(path):
    print(open(path).read()[:4000])
    return 0
