"""C20 - results depend on declared inputs only (restricted to the C part)."""
import os

from . import evidence, misc_jobs, p_ctx_common, runner


def check(tier, seed, only=None):
    rep = evidence.Report("C20", tier, seed)
    # explicit two-run non-interference for the init functions: arbitrary previous memory contents
    jobs = misc_jobs.init2_jobs(os.path.join(runner.scratch(), "init2"))
    jobs.append(misc_jobs.sb_stateless_job(os.path.join(runner.scratch(), "init2")))
    if only:
        jobs = [j for j in jobs if any(s in j.name for s in only.split(","))]

    def prog(job, r):
        if r["status"] != "ok":
            print("  [%s] %-50s %s" % (r["status"], job.name, r["reason"][:200]), flush=True)

    rep.add_job_results(runner.run_jobs(jobs, prog))
    # corollary part: the context-layer contracts constrain (requires) only API-defined state - a context
    # before FIRST is arbitrary memory apart from its status word - and determine every output
    p_ctx_common.run_ctx(rep, tier, [
        ("hash_init_digest", "leaf", "per_param", "all"),
        # every byte of the padding is written by hash_pad itself (stale partial-buffer bytes are never hashed)
        ("hash_pad", "leaf", "all", "all"),
        ("submit", "proto", "reference_loose", "per_param"),
        ("submit", "tape", "reference_loose", "reference"),
    ], only)
    # rolling hash: the contracts of init / reset / the scan loop (and, thorough, _rolling_hash2_run) express every result as a function of
    # the ghost stream = API-defined state only (history[0..w) set by reset or left by the previous run), with the rest of the state object
    # arbitrary; the bounded end-to-end run fills the state with garbage before init (added after seed C20_c)
    from . import overlay, p_c09, rolling
    try:
        rj = rolling.jobs(os.path.join(runner.scratch(), "rolling"))
        if tier == "quick":
            rj = [j for j in rj if j.name != "rolling/run"]
        if only:
            rj = [j for j in rj if any(s in j.name for s in only.split(","))]
        rep.add_job_results(runner.run_jobs(rj, prog))
    except overlay.OverlayError as e:
        rep.add_undecided("extraction broke (rolling): %s" % e)
    p_c09.native_roll(rep, tier, seed)
    rep.default_replays()
    rep.assumptions.append("RESTRICTED TO C: entry values of registers, flags and dead stack of the NASM routines are out of reach")
    rep.notes.append("corollary: every contract's requires mentions API-defined state only; CBMC leaves all other bytes (context before FIRST, "
                     "manager before init, output prefill) nondeterministic, and the functional post-conditions determine every output")
    return rep.finish(
        "two-run harnesses (cbmc, unwinding assertions) for every *_mgr_init_* / mh init function; context-layer submit contracts with an arbitrary context before FIRST",
        "one job per init function: two objects with different arbitrary contents, every byte compared after init")


def replay(path):
    print(open(path).read()[:4000])
    return 0
