"""C13 - FIPS build fails closed."""
from . import evidence, p_wrap_common


def check(tier, seed, only=None):
    rep = evidence.Report("C13", tier, seed)
    p_wrap_common.run_wrappers(rep, fips=True, only=only)
    rep.default_replays()
    rep.notes.append("isal_self_tests() is replaced by a stub answering an arbitrary verdict; its own protocol is C17")
    return rep.finish(p_wrap_common.CHECKER,
                      "one proof job per isal_ entry point compiled with -DFIPS_MODE -DSAFE_PARAM; symbolic over every "
                      "argument vector (each pointer NULL / invalid / valid), every self-test verdict, equal/unequal XTS keys")


def replay(path):
    print(open(path).read()[:4000])
    return 0
