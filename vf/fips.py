"""C17: the FIPS self-test protocol.
 (A) isal_self_tests() of fips/self_tests.c (x86) and fips/self_tests_generic.c, real C text with
     contracts, status routines / sub-tests replaced by contracts;
 (B) the NASM status routines translated by vf/asm2c.py, proved against the same contracts under
     interference of other threads (rely/guarantee step proofs)."""
import hashlib
import os
import re

from . import asm2c, overlay
from .cbmc import REPO, VERIF, Job

CANARY = """
#ifdef VF_WITH_CANARY
#define VF_CANARY() __CPROVER_assert(0, "vf_canary: end of harness reachable")
#else
#define VF_CANARY() ((void) 0)
#endif
"""

ASM_HARNESS = r"""
void vf_h_check(void)
{
        __CPROVER_assume(VF_I && !g_mine);
        g_unbalanced = 0;
        uint32_t old_status = g_status;
        asm_check_self_tests_status();
        uint32_t r = (uint32_t) vf_out_rax;
        __CPROVER_assert(!(old_status == 0u || old_status == 1u) || (g_status == old_status && r == old_status),
                         "a published verdict is final: it is returned and never changes");
        __CPROVER_assert(VF_I, "protocol invariant preserved");
        __CPROVER_assert(r == 0u || r == 1u || r == 2u, "check returns OK, FAIL or NOT_DONE(=caller must run the tests)");
        __CPROVER_assert((r == 2u) == (g_mine != 0), "NOT_DONE is returned to exactly the thread that won the token");
        __CPROVER_assert(r == 2u || g_status == r, "a verdict is returned only once it is final, and it is the published one");
        __CPROVER_assert(!g_unbalanced, "stack balanced at ret");
        VF_CANARY();
}
void vf_h_set(void)
{
        __CPROVER_assume(VF_I && g_mine && (vf_arg_rdi == 0 || vf_arg_rdi == 1));
        g_unbalanced = 0;
        asm_set_self_tests_status();
        __CPROVER_assert(VF_I && !g_mine, "protocol invariant preserved, token released");
        __CPROVER_assert(g_status == (uint32_t) vf_arg_rdi, "the verdict handed in is the one published");
        VF_CANARY();
}
"""


def asm_jobs(workdir, repo=REPO):
    rel = "fips/asm_self_tests.asm"
    lines = asm2c.nasm_expand(rel, defines=["FIPS_MODE"], repo=repo)
    rts = asm2c.routines(lines, r"^asm_(check|set)_self_tests_status$")
    if set(rts) != {"asm_check_self_tests_status", "asm_set_self_tests_status"}:
        raise asm2c.TranslationError("%s: status routines not found" % rel)
    # the cell must be initialised to NOT_DONE
    init = None
    for i, ln in enumerate(lines):
        if ln == "self_test_status:":
            init = lines[i + 1]
    if init is None or not re.match(r"^dd\s+(0x2|2)$", init):
        raise asm2c.TranslationError("%s: initial value of self_test_status is not NOT_DONE: %r" % (rel, init))
    tr = asm2c.Translator({}, {"self_test_status"})
    text = CANARY + '#include "fips_model.h"\n' + "\n".join(tr.translate(n, b) for n, b in rts.items()) + ASM_HARNESS
    os.makedirs(workdir, exist_ok=True)
    path = os.path.join(workdir, "asm_self_tests.c")
    with open(path, "w") as f:
        f.write(text)
    sha = hashlib.sha256(open(os.path.join(repo, rel), "rb").read()).hexdigest()
    inc = [os.path.join(VERIF, "contracts")]
    js = []
    for h in ("vf_h_check", "vf_h_set"):
        js.append(Job("fips/asm/%s" % h, [path], entry=h, includes=inc, unwind=4, timeout=300, loop_contracts=(h == "vf_h_check"),
                      checks=["--bounds-check", "--pointer-check"], nondet_static=True,
                      expect_classes=["loop_invariant_step"] if h == "vf_h_check" else [],
                      meta={"file": rel, "sha256": sha, "aspect": "rely-guarantee", "cost": 1}))
    return js


C_PRELUDE = r"""
/* ---- inserted by vf/fips.py ---- */
#include <stdint.h>
uint32_t g_status; uint8_t g_mine, g_other;
struct { unsigned aes, sha; } g_runs;   /* how often the known-answer tests ran in this call */
int vf_aes_ret, vf_sha_ret;             /* what they answer: ANY int (0 = pass) */
#define VF_I (g_status <= 3u && g_mine <= 1 && g_other <= 1 && !(g_mine && g_other) && ((g_status == 3u) == (g_mine || g_other)))

/* contracts of the status routines: exactly what is proved on their translation (fips/asm) */
int asm_check_self_tests_status(void)
__CPROVER_requires(VF_I && !g_mine)
__CPROVER_assigns(g_status, g_mine, g_other)
__CPROVER_ensures(VF_I)
__CPROVER_ensures(__CPROVER_return_value == 0 || __CPROVER_return_value == 1 || __CPROVER_return_value == 2)
__CPROVER_ensures((__CPROVER_return_value == 2) == (g_mine != 0))
__CPROVER_ensures(__CPROVER_return_value == 2 || g_status == (uint32_t) __CPROVER_return_value)
__CPROVER_ensures((__CPROVER_old(g_status) == 0u || __CPROVER_old(g_status) == 1u) ==>
                  (g_status == __CPROVER_old(g_status) && (uint32_t) __CPROVER_return_value == g_status))
;
void asm_set_self_tests_status(int status)
__CPROVER_requires(VF_I && g_mine)
__CPROVER_requires(status == 0 || status == 1)
__CPROVER_assigns(g_status, g_mine, g_other)
__CPROVER_ensures(VF_I && !g_mine && g_status == (uint32_t) status)
;
/* the known-answer tests may only be run by the token holder; their result is an arbitrary int */
int _aes_self_tests(void)
__CPROVER_requires(g_mine)
__CPROVER_assigns(g_runs.aes)
__CPROVER_ensures(g_runs.aes == __CPROVER_old(g_runs.aes) + 1 && __CPROVER_return_value == vf_aes_ret)
;
int _sha_self_tests(void)
__CPROVER_requires(g_mine)
__CPROVER_assigns(g_runs.sha)
__CPROVER_ensures(g_runs.sha == __CPROVER_old(g_runs.sha) + 1 && __CPROVER_return_value == vf_sha_ret)
;
#define VF_C_SELF_TESTS \
__CPROVER_requires(VF_I && !g_mine && g_runs.aes == 0 && g_runs.sha == 0) \
__CPROVER_assigns(g_status, g_mine, g_other, g_runs) \
__CPROVER_ensures(VF_I && !g_mine) \
__CPROVER_ensures(g_status == 0u || g_status == 1u) /* nobody returns before a verdict is final */ \
__CPROVER_ensures((__CPROVER_return_value == 0) == (g_status == 0u)) \
__CPROVER_ensures(__CPROVER_return_value == 0 || __CPROVER_return_value == ISAL_CRYPTO_ERR_SELF_TEST) \
/* the tests run at most once, and only in the call that won the token; a finished verdict is never re-run */ \
__CPROVER_ensures(g_runs.aes <= 1 && g_runs.sha <= 1) \
__CPROVER_ensures((__CPROVER_old(g_status) == 0u || __CPROVER_old(g_status) == 1u) ==> \
                  (g_runs.aes == 0 && g_runs.sha == 0 && g_status == __CPROVER_old(g_status))) \
/* whoever ran the tests published FAIL iff one of them answered non-zero */ \
__CPROVER_ensures(g_runs.aes == 1 ==> (g_runs.sha == 1 && (g_status == 1u) == (vf_aes_ret != 0 || vf_sha_ret != 0)))
"""

C_HARNESS = r"""
void vf_h_self_tests(void)
{
        int r = isal_self_tests();
        VF_CANARY();
}
"""


def c_jobs(workdir, repo=REPO):
    rel = "fips/self_tests.c"
    text = open(os.path.join(repo, rel)).read()
    rules = [overlay.Rule("prelude", r'(?s)\A.*^#include "[^\n]*\n(?P<at>)', C_PRELUDE),
             overlay.func_def_rule("isal_self_tests", "VF_C_SELF_TESTS")]
    out, fired = overlay.apply(text, rules)
    out = CANARY + out + C_HARNESS
    os.makedirs(workdir, exist_ok=True)
    path = os.path.join(workdir, "self_tests.c")
    with open(path, "w") as f:
        f.write(out)
    inc = [os.path.join(repo, "include"), os.path.join(repo, "fips"), os.path.join(VERIF, "contracts")]
    return [Job("fips/c/isal_self_tests", [path], entry="vf_h_self_tests", enforce="isal_self_tests",
                replace=["asm_check_self_tests_status", "asm_set_self_tests_status", "_aes_self_tests", "_sha_self_tests"],
                includes=inc, defines=["FIPS_MODE", "SAFE_PARAM"], unwind=8, timeout=300,
                expect_classes=["postcondition", "precondition"],
                meta={"file": rel, "sha256": overlay.sha256_text(text), "aspect": "sequential-contract", "cost": 1, "fired": fired})]
