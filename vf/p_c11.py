"""C11 - a rejected hash submit changes nothing and poisons no later call."""
from . import evidence, p_ctx_common, p_wrap_common


def check(tier, seed, only=None):
    rep = evidence.Report("C11", tier, seed)
    # rejection paths of the family functions: conditional assigns clause (rejected: ctx->error only),
    # return value == ctx, error code by precedence; accepted: error == NONE
    p_ctx_common.run_ctx(rep, tier, [("submit", "proto", "per_param", "per_param")], only,
                         extra=p_ctx_common.base_jobs(tier, ("submit",)))
    # the isal_*_ctx_mgr_submit wrappers: a valid call returns 0 whatever stale error another
    # returned context carries; a rejection is mapped to its documented code
    p_wrap_common.run_wrappers(rep, fips=False, legacy=False, only=only,
                               select=lambda n: n.endswith("_ctx_mgr_submit"))
    rep.default_replays()
    rep.notes.append(
        "ctx layer: `__CPROVER_assigns(REJECTED: ctx->error)` makes DFCC prove that a rejected submit writes no other "
        "byte of the context, of the manager or of any other object and calls nothing; the wrapper contract's stub "
        "of the dispatched submit returns NULL / ctx_in / another context with an ARBITRARY (stale) error field")
    return rep.finish(p_ctx_common.CHECKER + " ; " + p_wrap_common.CHECKER,
                      "ctx layer: one job per (alpha-equivalence class x parameter set) of the submit function, proto "
                      "aspect; wrappers: one job per isal_<alg>_ctx_mgr_submit")


def replay(path):
    print(open(path).read()[:4000])
    return 0
