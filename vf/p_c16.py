"""C16 - invalid arguments are refused without side effects; legacy and isal_ APIs agree."""
from . import evidence, p_ctx_common, p_wrap_common


def check(tier, seed, only=None):
    rep = evidence.Report("C16", tier, seed)
    p_wrap_common.run_wrappers(rep, fips=False, legacy=True, only=only)
    # the hash submit wrappers do not test the flag word themselves: an out-of-domain flag is refused by the family's
    # submit function, whose rejection contract (error code, `assigns(REJECTED: ctx->error)`) is proved here for every
    # (text, parameter set) class and for the base family (same jobs as C11; seed C16_b)
    p_ctx_common.run_ctx(rep, tier, [("submit", "proto", "per_param", "per_param")], only,
                         extra=p_ctx_common.base_jobs(tier, ("submit",)))
    rep.default_replays()
    rep.notes.append(
        "legacy == isal_: both are proved to call the same internal routine exactly once with the same arguments "
        "(recorded by the stub); equality of results then needs the internal routine to be a function of its "
        "arguments, which for NASM routines is an assumption")
    rep.notes.append(
        "observation (not a violation of C16, the documented constant is used as the domain): ISAL_GCM_MAX_LEN is "
        "(2^39-256)-1 and is compared with a length in BYTES, NIST SP 800-38D limits the plaintext to 2^39-256 BITS")
    return rep.finish(p_wrap_common.CHECKER,
                      "one proof job per isal_ entry point and per legacy twin compiled with -DSAFE_PARAM; symbolic over "
                      "every argument vector: each pointer NULL / invalid (one past the end) / valid, every scalar value")


def replay(path):
    print(open(path).read()[:4000])
    return 0
