"""C05 / C10: multi-hash update / tail / finalize templates (mh_sha1, mh_sha256, stitched murmur)."""
import os
import re
import shutil

from . import overlay
from .cbmc import REPO, VERIF, Job

VARIANTS = {
    "mh_sha1": dict(dir="mh_sha1", ctx="struct isal_mh_sha1_ctx", W=5, interim="mh_sha1_interim_digests", digest="mh_sha1_digest",
                    outer="_sha1_for_mh_sha1", outer_ret="void", segs="mh_sha1_segs_digests", out="mh_sha1_digest",
                    U="MH_SHA1", tus=["mh_sha1.c", "mh_sha1_avx512.c"], fams=["base", "sse", "avx", "avx2", "avx512"]),
    "mh_sha256": dict(dir="mh_sha256", ctx="struct isal_mh_sha256_ctx", W=8, interim="mh_sha256_interim_digests", digest="mh_sha256_digest",
                      outer="sha256_for_mh_sha256", outer_ret="void", segs="mh_sha256_segs_digests", out="mh_sha256_digest",
                      U="MH_SHA256", tus=["mh_sha256.c", "mh_sha256_avx512.c"], fams=["base", "sse", "avx", "avx2", "avx512"]),
    "mur": dict(dir="mh_sha1_murmur3_x64_128", ctx="struct isal_mh_sha1_murmur3_x64_128_ctx", W=5, interim="mh_sha1_interim_digests",
                digest="mh_sha1_digest", outer="_sha1_for_mh_sha1", outer_ret="void", segs="mh_sha1_segs_digests", out="mh_sha1_digest",
                U=None, low="mh_sha1_murmur3_x64_128", tus=["mh_sha1_murmur3_x64_128.c", "mh_sha1_murmur3_x64_128_avx512.c"],
                fams=["base", "sse", "avx", "avx2", "avx512"]),
}

HARNESS = r"""
#include <stdlib.h>
#ifdef VF_WITH_CANARY
#define VF_CANARY() __CPROVER_assert(0, "vf_canary: end of harness reachable")
#else
#define VF_CANARY() ((void) 0)
#endif
static const size_t vf_zero = 0;
static void vf_setup(void)
{
        g_ctx = malloc(sizeof(*g_ctx) ^ vf_zero); /* untyped byte array: symbolic-offset accesses stay array selects/stores */
        g_buf = malloc(g_len);
        __CPROVER_assume(g_ctx != 0 && g_buf != 0);
        /* witness address inside the partial buffer: where stream byte g_P lies on entry (if it does) */
        g_dw = &g_ctx->partial_block_buffer[(g_P - vfM.hashed) & 2047u];
}
"""


def harness(fn_update, fn_tail, fn_final, v, mur=False):
    h = ""
    if fn_update:
        h += """
void vf_h_%(f)s(void)
{
        vf_setup();
        int r = %(f)s(g_ctx, g_buf, g_len);
        VF_CANARY();
}""" % {"f": fn_update}
    if fn_tail:
        h += """
void vf_h_%(f)s(void)
{
        vf_setup();
        uint32_t total_len = (uint32_t) g_total;
        uint32_t *dig = malloc(4u * VF_MH_W);
        __CPROVER_assume(dig != 0);
        /* auxiliary memset witnesses, tied to the witness position (no loss of generality for g_P) */
        __CPROVER_assume(g_mk1 == g_P - vfM.hashed - ((g_total & 1023u) + 1u) && g_mk2 == g_P - (vfM.hashed + 1024u));
        %(f)s(g_ctx->partial_block_buffer, total_len, (uint32_t(*)[16]) g_ctx->VF_MH_INTERIM, VF_MH_FRAME, dig);
        VF_CANARY();
}""" % {"f": fn_tail}
    if fn_final:
        h += """
void vf_h_%(f)s(void)
{
        vf_setup();
        _Bool nul;
        void *out = nul ? (void *) 0 : malloc(4u * VF_MH_W);
        __CPROVER_assume(nul || out != 0);
        %(call)s
        VF_CANARY();
}""" % {"f": fn_final, "call": ("_Bool nul2; void *out2 = nul2 ? (void *) 0 : malloc(16); __CPROVER_assume(nul2 || out2 != 0); int r = %s(g_ctx, out, out2);" % fn_final) if mur else ("int r = %s(g_ctx, out);" % fn_final)}
    return h


def build(name, workdir, repo=REPO):
    v = VARIANTS[name]
    mur = name == "mur"
    d = os.path.join(repo, v["dir"])
    os.makedirs(workdir, exist_ok=True)
    U = v["U"]
    low = v.get("low", name)
    upd_macro = "UPDATE_FUNCTION" if mur else "%s_UPDATE_FUNCTION" % U
    fin_macro = "FINALIZE_FUNCTION" if mur else "%s_FINALIZE_FUNCTION" % U
    tail_macro = None if mur else "%s_TAIL_FUNCTION" % U
    defs = [
        "#define VF_MH_CTX_T %s" % v["ctx"], "#define VF_MH_W %du" % v["W"], "#define VF_MH_INTERIM %s" % v["interim"],
        "#define VF_MH_DIGEST %s" % v["digest"], "#define VF_MH_SEGS %s" % v["segs"], "#define VF_MH_OUT %s" % v["out"],
    ]
    if mur:
        defs += ["#define VF_MUR 1",
                 "#define VF_MH_BLOCKFNS(X) " + " ".join("VF_MUR_STITCH_CONTRACT(_%s_block_%s)" % (low, f) for f in v["fams"]),
                 "#define VF_MH_OUTER_DECL " + " ".join(
                     "void _mh_sha1_tail_%s(uint8_t *partial_buffer, uint32_t total_len, uint32_t (*mh_sha1_segs_digests)[16], "
                     "uint8_t *frame_buffer, uint32_t digests[5]) VF_C_MH_TAIL;" % f for f in v["fams"])]
    else:
        defs += ["#define VF_MH_BLOCKFNS(X) " + " ".join("X(_%s_block_%s)" % (low, f) for f in v["fams"]),
                 "#define VF_MH_OUTER_DECL VF_MH_OUTER_CONTRACT(%s, %s)" % (v["outer_ret"], v["outer"])]
    defs.append('#include "mh_prelude.h"')
    prelude = "\n/* ---- inserted by vf/mh.py ---- */\n#ifndef VF_MH_DEFS\n#define VF_MH_DEFS\n" + "\n".join(defs) + "\n#endif\n"
    meta = {}
    tmpls = [("%s_update_base.c" % low, [(upd_macro, "VF_C_MH_UPDATE")])]
    if mur:
        tmpls.append(("%s_finalize_base.c" % low, [(fin_macro, "VF_C_MH_FINALIZE")]))
    else:
        tmpls.append(("%s_finalize_base.c" % low, [(tail_macro, "VF_C_MH_TAIL"), (fin_macro, "VF_C_MH_FINALIZE")]))
    for tmpl, rules in tmpls:
        text = open(os.path.join(d, tmpl)).read()
        rs = []
        first = rules[0][0]
        rs.append(overlay.Rule("prelude:" + tmpl, r"^(?P<at>)(?:int|void)\n" + re.escape(first) + r"\(", prelude))
        for fn, macro in rules:
            rs.append(overlay.func_def_rule(fn, macro))
        out, fired = overlay.apply(text, rs)
        with open(os.path.join(workdir, tmpl), "w") as f:
            f.write(out)
        meta[tmpl] = {"sha256": overlay.sha256_text(text), "fired": fired}
    jobs = []
    inc = [workdir, os.path.join(repo, "include"), d, os.path.join(repo, "mh_sha1"), os.path.join(VERIF, "contracts")]
    insts = []
    for tu in v["tus"]:
        text = open(os.path.join(d, tu)).read()
        fams = re.findall(r"#define %s\s+_%s_update_(\w+)" % (upd_macro, low), text)
        h = HARNESS + "".join(harness("_%s_update_%s" % (low, f), None if mur else "_%s_tail_%s" % (low, f), "_%s_finalize_%s" % (low, f), v, mur) for f in fams)
        with open(os.path.join(workdir, tu), "w") as f:
            f.write(text + h)
        meta[tu] = {"sha256": overlay.sha256_text(text)}
        for fam in fams:
            insts.append((os.path.join(workdir, tu), fam, tu))
    for tmpl, fns in (("%s_update_base.c" % low, ("update",)), ("%s_finalize_base.c" % low, ("finalize",) if mur else ("tail", "finalize"))):
        p = os.path.join(workdir, "standalone_" + tmpl)
        text = open(os.path.join(workdir, tmpl)).read()
        h = HARNESS + harness("_%s_update_base" % low if "update" in fns else None,
                              "_%s_tail_base" % low if "tail" in fns else None,
                              "_%s_finalize_base" % low if "finalize" in fns else None, v, mur)
        with open(p, "w") as f:
            f.write(text + h)
        for fn in fns:
            insts.append((p, "base", tmpl, fn))
    for it in insts:
        path, fam, src = it[0], it[1], it[2]
        roles = (it[3],) if len(it) > 3 else (("update", "finalize") if mur else ("update", "tail", "finalize"))
        for role in roles:
            fn = "_%s_%s_%s" % (low, role, fam)
            replace = ["_%s_block_%s" % (low, fam), "memset"]
            if role == "update":
                replace.append("memcpy")
            if role == "tail":
                replace.append(v["outer"])
            if role == "finalize":
                replace = ["_mh_sha1_tail_%s" % fam, "_murmur3_x64_128_block", "_murmur3_x64_128_tail"] if mur else ["_%s_tail_%s" % (low, fam)]
            jobs.append(Job("mh/%s/%s/%s" % (name, fam, role), [path], entry="vf_h_" + fn, enforce=fn, replace=replace,
                            includes=inc, defines=["SAFE_PARAM", "NDEBUG"], unwind=20, timeout=1800, solvers=["minisat"], mem_gb=24,
                            checks=["--bounds-check", "--pointer-check"],
                            expect_classes=["postcondition", "precondition"],
                            meta={"file": "%s/%s" % (v["dir"], src), "sha256": meta[src]["sha256"], "aspect": "mh-tape", "cost": 300 if role == "update" else 60}))
    return jobs


INIT = {
    "mh_sha1": ("mh_sha1.c", "_mh_sha1_init", "int r = _mh_sha1_init(c);", "ISAL_MH_SHA1_CTX_ERROR_NULL"),
    "mh_sha256": ("mh_sha256.c", "_mh_sha256_init", "int r = _mh_sha256_init(c);", "ISAL_MH_SHA256_CTX_ERROR_NULL"),
    "mur": ("mh_sha1_murmur3_x64_128.c", "_mh_sha1_murmur3_x64_128_init", "uint64_t seed; int r = _mh_sha1_murmur3_x64_128_init(c, seed);",
            "ISAL_MH_SHA1_MURMUR3_CTX_ERROR_NULL"),
}


def init_job(name, workdir, repo=REPO):
    """Functional contract of the init function (contracts_init/mh_init_prelude.h): segment chaining values = FIPS IV,
    nothing consumed, both murmur state words = the full 64-bit seed; NULL refused untouched.
    The 16-iteration loop has a constant bound: --unwind 20 with unwinding assertions is complete, not a stand-in."""
    v = VARIANTS[name]
    tu, fn, call, errnull = INIT[name]
    d = os.path.join(repo, v["dir"])
    os.makedirs(workdir, exist_ok=True)
    text = open(os.path.join(d, tu)).read()
    defs = ["#define VF_MH_W %d" % v["W"], "#define VF_MH_INTERIM %s" % v["interim"], "#define VF_MH_ERR_NULL %s" % errnull]
    if name == "mur":
        defs.append("#define VF_MUR 1")
    defs.append('#include "mh_init_prelude.h"')
    prelude = "\n/* ---- inserted by vf/mh.py (init) ---- */\n" + "\n".join(defs) + "\n"
    rs = [overlay.Rule("prelude:init:" + tu, r"^(?P<at>)int\n" + re.escape(fn) + r"\(", prelude), overlay.func_def_rule(fn, "VF_C_MH_INIT")]
    out, fired = overlay.apply(text, rs)
    h = """
#ifdef VF_WITH_CANARY
#define VF_CANARY() __CPROVER_assert(0, "vf_canary: end of harness reachable")
#else
#define VF_CANARY() ((void) 0)
#endif
void vf_h_%s(void)
{
        %s *c;
        %s
        VF_CANARY();
}
""" % (fn, v["ctx"], call)
    path = os.path.join(workdir, "init_" + tu)
    with open(path, "w") as f:
        f.write(out + h)
    # own directory: every file of an include directory under /verif is part of the cache key of the jobs that use it
    inc = [workdir, os.path.join(repo, "include"), d, os.path.join(repo, "mh_sha1"), os.path.join(VERIF, "contracts_init")]
    return Job("mh/%s/init" % name, [path], entry="vf_h_" + fn, enforce=fn, replace=[], includes=inc,
               defines=["SAFE_PARAM", "NDEBUG"], unwind=20, timeout=600, solvers=["minisat"], mem_gb=12,
               checks=["--bounds-check", "--pointer-check"], expect_classes=["postcondition"],
               meta={"file": "%s/%s" % (v["dir"], tu), "sha256": overlay.sha256_text(text), "aspect": "mh-init", "cost": 20,
                     "fired": fired})
