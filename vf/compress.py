"""Compression functions of the C family against the standards - per-round cut points
(contracts/compress_prelude.h, spec/round_specs.h).

Targets: X_single() of every *_mb/*_ctx_base.c (the `base` binding of the multi-buffer hashes, C01/C15)
and the block functions the multi-hash finalisation uses (sha1_single_for_mh_sha1,
sha256_single_for_mh_sha256: C05/C10)."""
import os
import re

from . import overlay
from .cbmc import REPO, VERIF, Job

# (relative file, function, algorithm, include dir)
TARGETS = {
    "sha1_base": ("sha1_mb/sha1_ctx_base.c", "sha1_single", "SHA1"),
    "sha256_base": ("sha256_mb/sha256_ctx_base.c", "sha256_single", "SHA256"),
    "sha512_base": ("sha512_mb/sha512_ctx_base.c", "sha512_single", "SHA512"),
    "md5_base": ("md5_mb/md5_ctx_base.c", "md5_single", "MD5"),
    "sm3_base": ("sm3_mb/sm3_ctx_base.c", "sm3_single", "SM3"),
    "sha1_for_mh": ("mh_sha1/sha1_for_mh_sha1.c", "_sha1_single_for_mh_sha1", "SHA1"),
    "sha256_for_mh": ("mh_sha256/sha256_for_mh_sha256.c", "sha256_single_for_mh_sha256", "SHA256"),
    # the C block functions of the multi-hashes: segment g_s (arbitrary) of the interleaved block
    "mh_sha1_block": ("mh_sha1/mh_sha1_block_base.c", "mh_sha1_single", "MHSHA1"),
    "mh_sha256_block": ("mh_sha256/mh_sha256_block_base.c", "mh_sha256_single", "MHSHA256"),
}

MH_HARNESS = r"""
/* ---- harness (appended by the overlay) ---- */
#include <stdlib.h>
#ifdef VF_WITH_CANARY
#define VF_CANARY() __CPROVER_assert(0, "vf_canary: end of harness reachable")
#else
#define VF_CANARY() ((void) 0)
#endif
void vf_h_single(void)
{
        uint8_t *input = malloc(1024);
        uint32_t (*digests)[ISAL_HASH_SEGS] = malloc(S_NS * 16 * sizeof(S_WORD));
        uint8_t *fb = malloc(1024);
        __CPROVER_assume(input && digests && fb);
        %(fn)s(input, digests, fb);
        VF_CANARY();
}
"""

HARNESS = r"""
/* ---- harness (appended by the overlay) ---- */
#include <stdlib.h>
#ifdef VF_WITH_CANARY
#define VF_CANARY() __CPROVER_assert(0, "vf_canary: end of harness reachable")
#else
#define VF_CANARY() ((void) 0)
#endif
void vf_h_single(void)
{
        uint8_t *data = malloc(S_BLOCK);
        S_WORD *digest = malloc(S_NS * sizeof(S_WORD));
        __CPROVER_assume(data && digest);
        %(fn)s(data, digest);
        VF_CANARY();
}
"""

V = r"(\w+)"


def _rules(fn, alg, text):
    mh = alg.startswith("MH")
    rules = [
        overlay.Rule("prelude", r'(?s)\A.*^#include "[^\n]*\n(?:#include <[^\n]*\n)*(?P<at>)',
                     "\n/* ---- inserted by vf/compress.py ---- */\n%s#define VF_ALG_%s 1\n#include \"compress_prelude.h\"\n"
                     % ("#define VF_MH_SEG 1\n" if mh else "", alg[2:] if mh else alg)),
        overlay.func_def_rule(fn, "VF_C_MH_SINGLE_FN" if mh else "VF_C_SINGLE_FN"),
    ]

    def scoped(r):
        r.scope = fn
        return r

    if alg in ("SHA256", "SHA512"):
        n = 64 if alg == "SHA256" else 80
        pat = r"^[ \t]*step\((\d+), " + ", ".join([V] * 8) + r", 0x[0-9a-fA-F]+\);(?P<at>)"

        def cut(m):
            p = m.groups()[1:9]
            return " VF_CUT8(%s, %s);" % (m.group(1), ", ".join([p[7]] + list(p[:7])))

        rules.append(scoped(overlay.Rule("cut", pat, cut, count=n)))
        rules.append(scoped(overlay.Rule("begin", r"(?P<at>)^[ \t]*step\(0, " + ", ".join([V] * 8) + ",",
                                         lambda m: "        VF_BEGIN8(%s);\n" % ", ".join(m.groups()[1:9]))))
    elif alg == "SHA1":
        pat = r"^[ \t]*step\d\d_\d\d\((\d+), " + ", ".join([V] * 5) + r"\);(?P<at>)"

        def cut(m):
            p = m.groups()[1:6]
            return " VF_CUT5(%s, %s);" % (m.group(1), ", ".join([p[4]] + list(p[:4])))

        rules.append(scoped(overlay.Rule("cut", pat, cut, count=80)))
        rules.append(scoped(overlay.Rule("begin", r"(?P<at>)^[ \t]*step00_19\(0, " + ", ".join([V] * 5) + r"\)",
                                         lambda m: "        VF_BEGIN5(%s);\n" % ", ".join(m.groups()[1:6]))))
    elif alg == "MD5":
        pat = r"^[ \t]*step\((\d+), " + ", ".join([V] * 4) + r", \w+, 0x[0-9a-fA-F]+, \w+\[\d+\], \d+\);(?P<at>)"

        def cut(m):
            p = m.groups()[1:5]
            return " VF_CUT4(%s, %s);" % (m.group(1), ", ".join([p[3]] + list(p[:3])))

        rules.append(scoped(overlay.Rule("cut", pat, cut, count=64)))
        rules.append(scoped(overlay.Rule("begin", r"(?P<at>)^[ \t]*step\(0, " + ", ".join([V] * 4) + ",",
                                         lambda m: "        VF_BEGIN4(%s);\n" % ", ".join(m.groups()[1:5]))))
    elif alg == "MHSHA1":
        pat = r"^[ \t]*step\d\d_\d\d\((\d+), " + ", ".join([V] * 5) + r", w(?:, ww)?\);(?P<at>)"

        def cut(m):
            p = m.groups()[1:6]
            return " VF_MHCUT5(%s, %s);" % (m.group(1), ", ".join([p[4]] + list(p[:4])))

        rules.append(scoped(overlay.Rule("cut", pat, cut, count=80)))
        rules.append(scoped(overlay.Rule("begin", r"(?P<at>)^[ \t]*step00_15\(0, " + ", ".join([V] * 5) + ",",
                                         lambda m: "        VF_MHBEGIN5(%s);\n" % ", ".join(m.groups()[1:6]))))
    elif alg == "MHSHA256":
        pat = r"^[ \t]*step\((i(?: \+ \d)?), " + ", ".join([V] * 8) + r", k\[i(?: \+ \d)?\], t1, t2, w, ww\);(?P<at>)"

        def cut(m):
            p = m.groups()[1:9]
            return " VF_MHCUT8(%s, %s);" % (m.group(1), ", ".join([p[7]] + list(p[:7])))

        rules.append(scoped(overlay.Rule("cut", pat, cut, count=8)))
        rules.append(scoped(overlay.Rule("begin", r"(?P<at>)^[ \t]*for \(i = 0; i < 64; i \+= 8\) \{\n[ \t]*step\(i, " + ", ".join([V] * 8) + ",",
                                         lambda m: "        VF_MHBEGIN8(%s);\n" % ", ".join(m.groups()[1:9]))))
    elif alg == "SM3":
        rules.append(scoped(overlay.Rule("begin", r"(?P<at>)^[ \t]*sm3_message_schedule\(", "        VF_BEGIN8(a, b, c, d, e, f, g, h);\n")))
        rules.append(scoped(overlay.Rule("sched", r"^[ \t]*sm3_message_schedule\(\(uint32_t \*\) data, (\w+), (\w+)\);(?P<at>)",
                                         lambda m: " VF_SM3_SCHED(%s, %s);" % (m.group(1), m.group(2)))))
        # the 64 rounds are a loop calling sm3_compress_step_func(): the loop is unwound (constant bound) and the cut's
        # assertion is a switch over the round counter, so that every round is its own property / solver run
        rules.append(scoped(overlay.Rule(
            "cut", r"^[ \t]*sm3_compress_step_func\((\w+), &(\w+), &(\w+), &(\w+), &(\w+), &(\w+), &(\w+), &(\w+), &(\w+), \w+, \w+\);(?P<at>)",
            lambda m: " VF_CUT8L(%s);" % ", ".join(m.groups()[:9]))))
    else:
        raise overlay.OverlayError("no cut rules for " + alg)
    return rules


def annotate(key, workdir, repo=REPO):
    rel, fn, alg = TARGETS[key]
    path = os.path.join(repo, rel)
    text = open(path).read()
    out, fired = overlay.apply(text, _rules(fn, alg, text))
    out += (MH_HARNESS if alg.startswith("MH") else HARNESS) % {"fn": fn}
    os.makedirs(workdir, exist_ok=True)
    dst = os.path.join(workdir, "compress_%s.c" % key)
    with open(dst, "w") as f:
        f.write(out)
    return dst, fired, overlay.sha256_text(text), rel


def spec_selftest(workdir, algs):
    """the round-stepper specs must reproduce the example digests printed in the standards (native run)"""
    import subprocess
    os.makedirs(workdir, exist_ok=True)
    for alg in sorted(set(algs)):
        exe = os.path.join(workdir, "spec_selftest_%s" % alg)
        r = subprocess.run(["gcc", "-O1", "-DVF_ALG_%s" % alg, "-I" + os.path.join(VERIF, "spec"),
                            os.path.join(VERIF, "spec", "selftest.c"), "-o", exe], capture_output=True, text=True)
        if r.returncode != 0 or subprocess.run([exe], capture_output=True).returncode != 0:
            raise overlay.OverlayError("spec/round_specs.h (%s) does not reproduce the standard's example digest: %s" % (alg, r.stderr[-200:]))


def jobs(workdir, keys=None, repo=REPO, segs=range(16)):
    """keys: names of TARGETS; an mh block target expands to one job per segment in `segs`"""
    js = []
    spec_selftest(workdir, [TARGETS[k][2].replace("MH", "") for k in (keys or TARGETS)])
    for key in (keys or TARGETS):
        rel, fn, alg = TARGETS[key]
        dst, fired, sha, rel = annotate(key, workdir, repo)
        inc = [os.path.join(repo, "include"), os.path.join(repo, os.path.dirname(rel)), os.path.join(VERIF, "contracts"),
               os.path.join(VERIF, "spec")]
        variants = [("", [])]
        if alg.startswith("MH"):
            variants = [("@seg%d" % k, ["VF_SEG_CONST=%du" % k]) for k in segs]
        for suffix, extra in variants:
            js.append(Job("compress/%s%s" % (key, suffix), [dst], entry="vf_h_single", enforce=fn, unwind=82, includes=inc,
                          defines=["SAFE_DATA", "SAFE_PARAM", "NDEBUG"] + extra, timeout=600, mem_gb=8,
                          solvers=["minisat", "cadical", "z3"], split="cut", expect_classes=["assertion", "postcondition"],
                          # rol32(T, 0) in sm3_compress_step_func shifts by 32: DESIGN.md observation
                          extra_cbmc=(["--no-undefined-shift-check"] if alg == "SM3" else []),
                          meta={"file": rel, "sha256": sha, "aspect": "compress-vs-standard", "fired": len(fired), "cost": 60,
                                "spec": "spec/round_specs.h (%s)" % alg.replace("MH", "segment %s of 16, " % (suffix[4:] or "g_s"))}))
    return js
