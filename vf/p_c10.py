"""C10 - mh_sha1_murmur3_x64_128 returns both digests as if computed separately."""
from . import p_c05


def check(tier, seed, only=None):
    return p_c05.check(tier, seed, only=only, variants=("mur",), pid="C10")


def replay(path):
    print(open(path).read()[:4000])
    return 0
