"""C01 - multi-buffer digests equal the standard hash for every submission history."""
from . import evidence, p_ctx_common


def check(tier, seed, only=None):
    rep = evidence.Report("C01", tier, seed)
    p_ctx_common.run_ctx(rep, tier, [
        ("hash_pad", "leaf", "all", "all"),
        ("hash_init_digest", "leaf", "all", "all"),
        ("submit", "tape", "reference_loose", "reference"),
        ("resubmit", "tape", "reference_loose", "reference"),
        ("flush", "tape", "reference_loose", "reference"),
    ], only, extra=p_ctx_common.base_jobs(
        tier, ("init_digest", "init", "update", "final", "submit"),
        compress_quick=("sha256_base",),
        compress_thorough=("sha1_base", "sha256_base", "sha512_base", "md5_base", "sm3_base")))
    rep.default_replays()
    p_ctx_common.add_mgr_bounded(rep, tier, seed)
    p_ctx_common.add_base_bounded(rep, tier, seed)
    rep.notes.append(
        "closing lemma (definition of the iterated hash, not machine checked): the blocks handed to the compression "
        "side for a context are exactly M||pad(|M|) in order (tape obligations for an arbitrary stream position g_P), "
        "the chaining value starts at the standard IV and is written by nobody but the compression side (digest-word "
        "ghost for an arbitrary word g_W), hence digest = H_std(M)")
    rep.notes.append(
        "compression functions: the C ones (X_single of *_ctx_base.c) are PROVED equal to the standards round by round "
        "(jobs compress/*, spec/round_specs.h validated against the standards' printed example digests by spec/selftest.c); "
        "the SIMD ones are assembly: assumed, and checked natively (bounded) by native/mgr_diff")
    return rep.finish(p_ctx_common.CHECKER,
                      "leaf functions of every context file; tape aspect of submit/resubmit/flush: reference instance + "
                      "every textually different instance (quick), one instance per parameter set (thorough)")


def replay(path):
    print(open(path).read()[:4000])
    return 0
