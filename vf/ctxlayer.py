"""Context layer (*_mb/*_ctx_<family>.c): overlay parameters, annotation, jobs."""
import glob
import os
import re

from . import overlay
from .cbmc import REPO, VERIF, Job

ALGS = {
    # alg: (dir, BLOCK, LOG2, LENF, BE, NWORDS, word type, SM3SWAP, IV list)
    "sha1": ("sha1_mb", 64, 6, 8, 1, 5, "uint32_t", 0,
             "0x67452301, 0xefcdab89, 0x98badcfe, 0x10325476, 0xc3d2e1f0"),
    "sha256": ("sha256_mb", 64, 6, 8, 1, 8, "uint32_t", 0,
               "0x6a09e667, 0xbb67ae85, 0x3c6ef372, 0xa54ff53a, 0x510e527f, 0x9b05688c, 0x1f83d9ab, 0x5be0cd19"),
    "sha512": ("sha512_mb", 128, 7, 16, 1, 8, "uint64_t", 0,
               "0x6a09e667f3bcc908, 0xbb67ae8584caa73b, 0x3c6ef372fe94f82b, 0xa54ff53a5f1d36f1, "
               "0x510e527fade682d1, 0x9b05688c2b3e6c1f, 0x1f83d9abfb41bd6b, 0x5be0cd19137e2179"),
    "md5": ("md5_mb", 64, 6, 8, 0, 4, "uint32_t", 0,
            "0x67452301, 0xefcdab89, 0x98badcfe, 0x10325476"),
    "sm3": ("sm3_mb", 64, 6, 8, 1, 8, "uint32_t", 1,
            "0x7380166f, 0x4914b2b9, 0x172442d7, 0xda8a0600, 0xa96f30bc, 0x163138aa, 0xe38dee4d, 0xb0fb0e4e"),
}
# The IV lists above are written from FIPS 180-4 sec. 5.3, RFC 1321 sec. 3.3 and
# GB/T 32905-2016 sec. 4.1 - NOT copied from the repository headers.


def scheduler_files(repo=REPO):
    """The scheduler-driven context files (everything except *_base*.c)."""
    out = []
    for alg, (d, *_rest) in ALGS.items():
        for p in sorted(glob.glob(os.path.join(repo, d, alg + "_ctx_*.c"))):
            b = os.path.basename(p)
            if "_base" in b:
                continue
            fam = b[len(alg) + 5:-2]
            out.append((alg, fam, p))
    return out


def params(alg, fam, text):
    d, block, log2, lenf, be, nwords, wt, swap, iv = ALGS[alg]
    A = alg.upper()
    m = set(re.findall(r"\b(_?%s_[sm]b_mgr_submit_\w+)\s*\(\s*&mgr->mgr" % alg, text))
    f = set(re.findall(r"\b(_?%s_[sm]b_mgr_flush_\w+)\s*\(\s*&mgr->mgr" % alg, text))
    if len(m) != 1 or len(f) != 1:
        raise overlay.OverlayError("%s_%s: lane-manager entry points not identified uniquely: %s %s" % (alg, fam, m, f))
    # underscore prefix of the public family symbols differs (sm3 has none for some)
    def sym(kind):
        c = set(re.findall(r"^(_?%s_ctx_mgr_%s_%s)\(" % (alg, kind, re.escape(fam)), text, re.M))
        if len(c) != 1:
            raise overlay.OverlayError("%s_%s: %s entry point not found uniquely: %s" % (alg, fam, kind, c))
        return c.pop()

    return {
        "alg": alg, "fam": fam,
        "VF_CTX_T": "ISAL_%s_HASH_CTX" % A,
        "VF_MGR_T": "ISAL_%s_HASH_CTX_MGR" % A,
        "VF_JOB_T": "ISAL_%s_JOB" % A,
        "VF_JOBMGR_T": "ISAL_%s_MB_JOB_MGR" % A,
        "VF_WORD_T": wt,
        "VF_BLOCK": "%du" % block, "VF_LOG2": str(log2), "VF_LENF": "%du" % lenf,
        "VF_BE": str(be), "VF_NWORDS": str(nwords), "VF_SM3SWAP": str(swap),
        "VF_IVLIST": iv,
        "VF_LOOP_EXTRA": ", j" if swap else "",
        "VF_MGR_SUBMIT": m.pop(), "VF_MGR_FLUSH": f.pop(),
        "fn_submit": sym("submit"), "fn_flush": sym("flush"), "fn_init": sym("init"),
        "fn_resubmit": "%s_ctx_mgr_resubmit" % alg,
    }


HARNESS = r"""
/* ---- harness (appended by the overlay; entry points for goto-cc --function) ----
 * All objects are allocated here by real assignments (exact sizes), so that CBMC's
 * points-to sets are known; everything else (contents, ghosts, scalars) is nondet. */
#include <stdlib.h>
#ifdef VF_WITH_CANARY
#define VF_CANARY() __CPROVER_assert(0, "vf_canary: end of harness reachable")
#else
#define VF_CANARY() ((void) 0)
#endif
#ifdef VF_TYPED_OBJECTS
#define VF_ZERO 0
#else
static const size_t vf_zero = 0;
#define VF_ZERO vf_zero
#endif
static VF_MGR_T *vf_setup(void)
{
        /* "^ vf_zero" strips CBMC's sizeof type annotation: the objects are untyped byte
         * arrays (as with __CPROVER_is_fresh), which keeps symex from expanding every
         * byte-level havoc field by field */
        VF_MGR_T *mgr = malloc(sizeof(*mgr) ^ VF_ZERO);
        g_A = malloc(sizeof(*g_A) ^ VF_ZERO);
        g_B = malloc(sizeof(*g_B) ^ VF_ZERO);
        g_bufA = malloc(g_lenA);
        g_bufB = malloc(g_lenB);
        __CPROVER_assume(mgr && g_A && g_B && g_bufA && g_bufB);
        return mgr;
}
void vf_h_submit(void)
{
        VF_MGR_T *mgr = vf_setup();
        ISAL_HASH_CTX_FLAG flags;
        VF_CTX_T *r = %(fn_submit)s(mgr, g_A, g_bufA, g_lenA, flags);
        VF_CANARY();
}
void vf_h_flush(void)
{
        VF_MGR_T *mgr = vf_setup();
        VF_CTX_T *r = %(fn_flush)s(mgr);
        VF_CANARY();
}
void vf_h_resubmit(void)
{
        VF_MGR_T *mgr = vf_setup();
        _Bool a, n;
        VF_CTX_T *ctx = n ? NULL : (a ? g_A : g_B);
        VF_CTX_T *r = %(fn_resubmit)s(mgr, ctx);
        VF_CANARY();
}
void vf_h_hash_pad(void)
{
        uint8_t *padblock = malloc(2 * VF_BLOCK);
        uint64_t total_len;
        __CPROVER_assume(padblock);
        uint32_t r = hash_pad(padblock, total_len);
        VF_CANARY();
}
void vf_h_init_digest(void)
{
        VF_WORD_T *digest = malloc(VF_NWORDS * sizeof(VF_WORD_T));
        __CPROVER_assume(digest);
        hash_init_digest(digest);
        VF_CANARY();
}
"""


def annotate(alg, fam, path):
    text = open(path).read()
    p = params(alg, fam, text)
    defs = "".join("#define %s %s\n" % (k, v) for k, v in p.items() if k.startswith("VF_"))
    prelude = "\n/* ---- inserted by vf/overlay ---- */\n" + defs + '#include "ctx_prelude.h"\n'
    rules = [
        # after the last #include of the file
        overlay.Rule("prelude", r'(?s)\A.*^#include "[^\n]*\n(?P<at>)', prelude),
        overlay.func_def_rule(p["fn_submit"], "VF_C_SUBMIT"),
        overlay.func_def_rule(p["fn_flush"], "VF_C_FLUSH"),
        overlay.func_def_rule(p["fn_resubmit"], "VF_C_RESUBMIT"),
        overlay.func_def_rule("hash_pad", "VF_C_HASH_PAD"),
        overlay.func_def_rule("hash_init_digest", "VF_C_INIT_DIGEST"),
        overlay.nth_loop_rule(p["fn_resubmit"], r"while \(ctx\)(?P<at>) \{", "VF_L_RESUBMIT"),
        overlay.nth_loop_rule(p["fn_resubmit"], r"while \(ctx\) \{(?P<at>)", "VF_PIN(ctx);", name="pin:resubmit"),
        overlay.nth_loop_rule(p["fn_flush"], r"while \(1\)(?P<at>) \{", "VF_L_FLUSH"),
    ]
    if ALGS[alg][7]:  # SM3: byte-swap loop variable declared inside the contract loop
        rules += overlay.hoist_decl_rule(p["fn_resubmit"], r"(?P<decl>unsigned int j;)", "unsigned int j;", "hoist:j")
    out, fired = overlay.apply(text, rules)
    overlay.require_loop_count(text, p["fn_resubmit"], 2 if alg == "sm3" else 1)  # sm3: the digest byte-swap loop (VF_LOOP_EXTRA)
    overlay.require_loop_count(text, p["fn_flush"], 1)
    overlay.require_loop_count(text, p["fn_submit"], 0)
    out += HARNESS % p
    return out, p, fired, overlay.sha256_text(text)


# ---------------------------------------------------------------------------
# Alpha-equivalence classes of the template instances
# ---------------------------------------------------------------------------
def _strip_comments(t):
    t = re.sub(r"/\*.*?\*/", " ", t, flags=re.S)
    t = re.sub(r"//[^\n]*", " ", t)
    return t


def canonical_functions(alg, fam, text, p):
    """function role -> canonical text (identifiers of the algorithm/family renamed to
    role names, comments and white space removed).  Two instances with equal canonical
    text and equal parameter macros are alpha-equivalent: a proof of one is a proof of
    the other (the assumed manager contract is the same text as well)."""
    out = {}
    A = alg.upper()
    for role, fn in (("submit", p["fn_submit"]), ("flush", p["fn_flush"]), ("resubmit", p["fn_resubmit"]),
                     ("hash_pad", "hash_pad"), ("hash_init_digest", "hash_init_digest"), ("init", p["fn_init"])):
        lo, hi = overlay.function_span(text, fn)
        t = _strip_comments(text[lo:hi])
        t = t.replace(p["VF_MGR_SUBMIT"], "MGR_SUBMIT").replace(p["VF_MGR_FLUSH"], "MGR_FLUSH")
        t = t.replace(p["fn_submit"], "CTX_SUBMIT").replace(p["fn_flush"], "CTX_FLUSH")
        t = t.replace(p["fn_resubmit"], "CTX_RESUBMIT").replace(p["fn_init"], "CTX_INIT")
        t = re.sub(r"\b_?%s_[sm]b_mgr_init_\w+" % alg, "MGR_INIT", t)
        t = t.replace("ISAL_%s_" % A, "ISAL_X_")
        t = re.sub(r"\s+", "", t)
        out[role] = t
    # a caller's proof uses the callee's contract THROUGH the callee's declared parameter types
    # (implicit conversions at the call site): the declarators of the callees are part of the caller's text
    sig = ""
    for fn in ("hash_pad", "hash_init_digest", p["fn_resubmit"]):
        for m in re.finditer(r"^[A-Za-z_][\w \t\*]*\n" + re.escape(fn) + r"\((?:[^(){};]|\([^()]*\))*\)", text, re.M):
            d = _strip_comments(m.group(0)).replace(p["fn_resubmit"], "CTX_RESUBMIT").replace("ISAL_%s_" % A, "ISAL_X_")
            sig += re.sub(r"\s+", "", d) + ";"
    for role in ("submit", "flush", "resubmit"):
        out[role] += "|callees:" + sig
    return out


def param_key(p):
    return tuple(p[k] for k in ("VF_BLOCK", "VF_LOG2", "VF_LENF", "VF_BE", "VF_NWORDS", "VF_SM3SWAP", "VF_WORD_T", "VF_IVLIST"))


REFERENCE = ("sha256", "avx2")
ROLE_FN = {"submit": "fn_submit", "flush": "fn_flush", "resubmit": "fn_resubmit",
           "hash_pad": None, "hash_init_digest": None}

ASPECT_DEFS = {
    "proto": ["VF_NO_TAPE", "VF_NO_WORK"],
    "work": ["VF_NO_TAPE"],
    "tape": ["VF_NO_WORK"],
}
COST = {("proto", "submit"): 200, ("proto", "resubmit"): 60, ("proto", "flush"): 12,
        ("work", "submit"): 400, ("work", "resubmit"): 80, ("work", "flush"): 15,
        ("tape", "submit"): 3000, ("tape", "resubmit"): 800, ("tape", "flush"): 40}


class CtxPlan:
    """Annotates every scheduler-driven context file and decides which (file, role,
    aspect) triples are proved in this run and which are covered by alpha-equivalence."""

    def __init__(self, workdir, repo=REPO):
        self.workdir = workdir
        self.files = {}
        os.makedirs(workdir, exist_ok=True)
        for alg, fam, path in scheduler_files(repo):
            text = open(path).read()
            out, p, fired, sha = annotate(alg, fam, path)
            dst = os.path.join(workdir, "%s_ctx_%s.c" % (alg, fam))
            with open(dst, "w") as f:
                f.write(out)
            self.files[(alg, fam)] = {
                "path": path, "anno": dst, "p": p, "fired": fired, "sha256": sha,
                "canon": canonical_functions(alg, fam, text, p), "pkey": param_key(p),
            }
        if REFERENCE not in self.files:
            raise overlay.OverlayError("reference instance %s_%s missing" % REFERENCE)

    @staticmethod
    def _loose(t):
        """quick tier: the two known benign deltas between template instances are factored out -
        memcpy_fixedlen instead of memcpy_varlen (same witness contract for both) and SM3's final
        byte-swap loop; an instance that differs in anything else still forms its own class"""
        t = t.replace("memcpy_fixedlen", "memcpy_varlen")
        t = re.sub(r"unsignedintj;", "", t)
        t = re.sub(r"for\(j=0;j<ISAL_X_DIGEST_NWORDS;j\+\+\)\{ctx->job\.result_digest\[j\]=byteswap32\(ctx->job\.result_digest\[j\]\);\}", "", t)
        return t

    def groups(self, role, by_param, loose=False):
        """equivalence classes of instances for one role; key includes the parameter set
        when by_param is True"""
        g = {}
        for k, f in sorted(self.files.items()):
            key = (self._loose(f["canon"][role]) if loose else f["canon"][role], f["pkey"] if by_param else None)
            g.setdefault(key, []).append(k)
        return list(g.values())

    def select(self, role, mode):
        """mode 'reference': the reference instance + one member of every class whose text
        differs from the reference's (parameter sets not distinguished);
        'per_param': one member of every (text, parameter set) class;
        'all': every instance.  Returns (chosen, transferred{inst: proved_inst})"""
        chosen, transferred = [], {}
        if mode == "all":
            return sorted(self.files.keys()), {}
        for grp in self.groups(role, by_param=(mode == "per_param"), loose=(mode == "reference_loose")):
            rep = REFERENCE if REFERENCE in grp else grp[0]
            chosen.append(rep)
            for k in grp:
                if k != rep:
                    transferred[k] = rep
        return chosen, transferred

    def job(self, inst, role, aspect, timeout=None, solvers=("minisat",), split=False):
        f = self.files[inst]
        p = f["p"]
        alg, fam = inst
        d = ALGS[alg][0]
        inc = [os.path.join(REPO, "include"), os.path.join(REPO, d), os.path.join(VERIF, "contracts")]
        defs = ["SAFE_DATA", "SAFE_PARAM", "NDEBUG"] + ASPECT_DEFS.get(aspect, [])
        J = {
            "hash_pad": dict(entry="vf_h_hash_pad", enforce="hash_pad"),
            "hash_init_digest": dict(entry="vf_h_init_digest", enforce="hash_init_digest"),
            "resubmit": dict(entry="vf_h_resubmit", enforce=p["fn_resubmit"],
                             replace=[p["VF_MGR_SUBMIT"], "memcpy_sse_varlen", "hash_pad"], loop_contracts=True,
                             expect_classes=["loop_invariant_step", "postcondition", "precondition"]),
            "submit": dict(entry="vf_h_submit", enforce=p["fn_submit"],
                           replace=[p["VF_MGR_SUBMIT"], "memcpy_sse_varlen", "hash_init_digest", p["fn_resubmit"]],
                           expect_classes=["postcondition", "precondition"]),
            "flush": dict(entry="vf_h_flush", enforce=p["fn_flush"],
                          replace=[p["VF_MGR_FLUSH"], p["fn_resubmit"]], loop_contracts=True,
                          expect_classes=["loop_invariant_step", "postcondition", "precondition"]),
        }[role]
        if role in ("submit", "resubmit"):
            lo, hi = overlay.function_span(open(f["path"]).read(), p["fn_" + role])
            body = open(f["path"]).read()[lo:hi]
            J["replace"] = [r for r in J["replace"] if r != "memcpy_sse_varlen"]
            if "memcpy_varlen" in body:
                J["replace"].append("memcpy_sse_varlen")
            if "memcpy_fixedlen" in body:
                J["replace"].append("memcpy_sse_fixedlen")
        cost = COST.get((aspect, role), 10)
        if aspect == "tape" and role in ("submit", "resubmit"):
            solvers = ("cadical",)  # measured: minisat does not finish the tape aspect within an hour
            if role == "resubmit" or ALGS[alg][1] > 64:
                # each contract-level obligation in its own solver process (800 s -> ~4 min wall).  The 128-byte-block
                # instances (sha512) of submit do not fit into memory as one query: split, a violated obligation is
                # then still found (seed C01_a) while the frame mass may stay undecided (exit 2, never a pass)
                split = True
        return Job(
            "ctx/%s_%s/%s/%s" % (alg, fam, role, aspect), [f["anno"]], includes=inc, defines=defs,
            unwind=24, solvers=list(solvers), timeout=timeout or max(600, cost * 4), split=split,
            mem_gb=20 if aspect == "tape" else 12,
            meta={"file": os.path.relpath(f["path"], REPO), "sha256": f["sha256"], "aspect": aspect,
                  "role": role, "inst": "%s_%s" % inst, "cost": cost, "fired": f["fired"]},
            **J,
        )
