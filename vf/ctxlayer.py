"""Context layer (*_mb/*_ctx_<family>.c): overlay parameters, annotation, jobs."""
import glob
import os
import re

from . import overlay
from .cbmc import REPO, VERIF, Job

ALGS = {
    # alg: (dir, BLOCK, LOG2, LENF, BE, NWORDS, word type, SM3SWAP, IV list)
    "sha1": ("sha1_mb", 64, 6, 8, 1, 5, "uint32_t", 0,
             "0x67452301, 0xefcdab89, 0x98badcfe, 0x10325476, 0xc3d2e1f0"),
    "sha256": ("sha256_mb", 64, 6, 8, 1, 8, "uint32_t", 0,
               "0x6a09e667, 0xbb67ae85, 0x3c6ef372, 0xa54ff53a, 0x510e527f, 0x9b05688c, 0x1f83d9ab, 0x5be0cd19"),
    "sha512": ("sha512_mb", 128, 7, 16, 1, 8, "uint64_t", 0,
               "0x6a09e667f3bcc908, 0xbb67ae8584caa73b, 0x3c6ef372fe94f82b, 0xa54ff53a5f1d36f1, "
               "0x510e527fade682d1, 0x9b05688c2b3e6c1f, 0x1f83d9abfb41bd6b, 0x5be0cd19137e2179"),
    "md5": ("md5_mb", 64, 6, 8, 0, 4, "uint32_t", 0,
            "0x67452301, 0xefcdab89, 0x98badcfe, 0x10325476"),
    "sm3": ("sm3_mb", 64, 6, 8, 1, 8, "uint32_t", 1,
            "0x7380166f, 0x4914b2b9, 0x172442d7, 0xda8a0600, 0xa96f30bc, 0x163138aa, 0xe38dee4d, 0xb0fb0e4e"),
}
# The IV lists above are written from FIPS 180-4 sec. 5.3, RFC 1321 sec. 3.3 and
# GB/T 32905-2016 sec. 4.1 - NOT copied from the repository headers.


def scheduler_files(repo=REPO):
    """The scheduler-driven context files (everything except *_base*.c)."""
    out = []
    for alg, (d, *_rest) in ALGS.items():
        for p in sorted(glob.glob(os.path.join(repo, d, alg + "_ctx_*.c"))):
            b = os.path.basename(p)
            if "_base" in b:
                continue
            fam = b[len(alg) + 5:-2]
            out.append((alg, fam, p))
    return out


def params(alg, fam, text):
    d, block, log2, lenf, be, nwords, wt, swap, iv = ALGS[alg]
    A = alg.upper()
    m = set(re.findall(r"\b(_?%s_[sm]b_mgr_submit_\w+)\s*\(\s*&mgr->mgr" % alg, text))
    f = set(re.findall(r"\b(_?%s_[sm]b_mgr_flush_\w+)\s*\(\s*&mgr->mgr" % alg, text))
    if len(m) != 1 or len(f) != 1:
        raise overlay.OverlayError("%s_%s: lane-manager entry points not identified uniquely: %s %s" % (alg, fam, m, f))
    # underscore prefix of the public family symbols differs (sm3 has none for some)
    def sym(kind):
        c = set(re.findall(r"^(_?%s_ctx_mgr_%s_%s)\(" % (alg, kind, re.escape(fam)), text, re.M))
        if len(c) != 1:
            raise overlay.OverlayError("%s_%s: %s entry point not found uniquely: %s" % (alg, fam, kind, c))
        return c.pop()

    return {
        "alg": alg, "fam": fam,
        "VF_CTX_T": "ISAL_%s_HASH_CTX" % A,
        "VF_MGR_T": "ISAL_%s_HASH_CTX_MGR" % A,
        "VF_JOB_T": "ISAL_%s_JOB" % A,
        "VF_JOBMGR_T": "ISAL_%s_MB_JOB_MGR" % A,
        "VF_WORD_T": wt,
        "VF_BLOCK": "%du" % block, "VF_LOG2": str(log2), "VF_LENF": "%du" % lenf,
        "VF_BE": str(be), "VF_NWORDS": str(nwords), "VF_SM3SWAP": str(swap),
        "VF_IVLIST": iv,
        "VF_MGR_SUBMIT": m.pop(), "VF_MGR_FLUSH": f.pop(),
        "fn_submit": sym("submit"), "fn_flush": sym("flush"), "fn_init": sym("init"),
        "fn_resubmit": "%s_ctx_mgr_resubmit" % alg,
    }


HARNESS = r"""
/* ---- harness (appended by the overlay; entry points for goto-cc --function) ----
 * All objects are allocated here by real assignments (exact sizes), so that CBMC's
 * points-to sets are known; everything else (contents, ghosts, scalars) is nondet. */
#include <stdlib.h>
#define VF_CANARY() __CPROVER_assert(0, "vf_canary: end of harness reachable")
#ifdef VF_TYPED_OBJECTS
#define VF_ZERO 0
#else
static const size_t vf_zero = 0;
#define VF_ZERO vf_zero
#endif
static VF_MGR_T *vf_setup(void)
{
        /* "^ vf_zero" strips CBMC's sizeof type annotation: the objects are untyped byte
         * arrays (as with __CPROVER_is_fresh), which keeps symex from expanding every
         * byte-level havoc field by field */
        VF_MGR_T *mgr = malloc(sizeof(*mgr) ^ VF_ZERO);
        g_A = malloc(sizeof(*g_A) ^ VF_ZERO);
        g_B = malloc(sizeof(*g_B) ^ VF_ZERO);
        g_bufA = malloc(g_lenA);
        g_bufB = malloc(g_lenB);
        __CPROVER_assume(mgr && g_A && g_B && g_bufA && g_bufB);
        return mgr;
}
void vf_h_submit(void)
{
        VF_MGR_T *mgr = vf_setup();
        ISAL_HASH_CTX_FLAG flags;
        VF_CTX_T *r = %(fn_submit)s(mgr, g_A, g_bufA, g_lenA, flags);
        VF_CANARY();
}
void vf_h_flush(void)
{
        VF_MGR_T *mgr = vf_setup();
        VF_CTX_T *r = %(fn_flush)s(mgr);
        VF_CANARY();
}
void vf_h_resubmit(void)
{
        VF_MGR_T *mgr = vf_setup();
        _Bool a, n;
        VF_CTX_T *ctx = n ? NULL : (a ? g_A : g_B);
        VF_CTX_T *r = %(fn_resubmit)s(mgr, ctx);
        VF_CANARY();
}
void vf_h_hash_pad(void)
{
        uint8_t *padblock = malloc(2 * VF_BLOCK);
        uint64_t total_len;
        __CPROVER_assume(padblock);
        uint32_t r = hash_pad(padblock, total_len);
        VF_CANARY();
}
void vf_h_init_digest(void)
{
        VF_WORD_T *digest = malloc(VF_NWORDS * sizeof(VF_WORD_T));
        __CPROVER_assume(digest);
        hash_init_digest(digest);
        VF_CANARY();
}
"""


def annotate(alg, fam, path):
    text = open(path).read()
    p = params(alg, fam, text)
    defs = "".join("#define %s %s\n" % (k, v) for k, v in p.items() if k.startswith("VF_"))
    prelude = "\n/* ---- inserted by vf/overlay ---- */\n" + defs + '#include "ctx_prelude.h"\n'
    rules = [
        # after the last #include of the file
        overlay.Rule("prelude", r'(?s)\A.*^#include "[^\n]*\n(?P<at>)', prelude),
        overlay.func_def_rule(p["fn_submit"], "VF_C_SUBMIT"),
        overlay.func_def_rule(p["fn_flush"], "VF_C_FLUSH"),
        overlay.func_def_rule(p["fn_resubmit"], "VF_C_RESUBMIT"),
        overlay.func_def_rule("hash_pad", "VF_C_HASH_PAD"),
        overlay.func_def_rule("hash_init_digest", "VF_C_INIT_DIGEST"),
        overlay.nth_loop_rule(p["fn_resubmit"], r"while \(ctx\)(?P<at>) \{", "VF_L_RESUBMIT"),
        overlay.nth_loop_rule(p["fn_resubmit"], r"while \(ctx\) \{(?P<at>)", "VF_PIN(ctx);", name="pin:resubmit"),
        overlay.nth_loop_rule(p["fn_flush"], r"while \(1\)(?P<at>) \{", "VF_L_FLUSH"),
    ]
    out, fired = overlay.apply(text, rules)
    out += HARNESS % p
    return out, p, fired, overlay.sha256_text(text)
