"""Base (synchronous, pure C) family of the multi-buffer hashes: *_mb/*_ctx_base.c."""
import os
import re

from . import ctxlayer, overlay
from .cbmc import REPO, VERIF, Job

HARNESS = r"""
/* ---- harness (appended by the overlay) ---- */
#include <stdlib.h>
#ifdef VF_WITH_CANARY
#define VF_CANARY() __CPROVER_assert(0, "vf_canary: end of harness reachable")
#else
#define VF_CANARY() ((void) 0)
#endif
static const size_t vf_zero = 0;
static VF_MGR_T *vf_setup(void)
{
        VF_MGR_T *mgr = malloc(sizeof(*mgr) ^ vf_zero);
        g_A = malloc(sizeof(*g_A) ^ vf_zero);
        g_bufA = malloc(g_lenA);
        g_bufB = malloc(g_lenB); /* unused role of the shared copy contract */
        __CPROVER_assume(mgr && g_A && g_bufA && g_bufB);
        return mgr;
}
void vf_h_submit(void)
{
        VF_MGR_T *mgr = vf_setup();
        ISAL_HASH_CTX_FLAG flags;
        VF_CTX_T *r = %(fn_submit)s(mgr, g_A, g_bufA, g_lenA, flags);
        VF_CANARY();
}
void vf_h_init(void)
{
        vf_setup();
        %(alg)s_init(g_A, g_bufA, g_lenA);
        VF_CANARY();
}
void vf_h_update(void)
{
        vf_setup();
        %(alg)s_update(g_A, g_bufA, g_lenA);
        VF_CANARY();
}
void vf_h_final(void)
{
        vf_setup();
        %(alg)s_final(g_A);
        VF_CANARY();
}
void vf_h_init_digest(void)
{
        VF_WORD_T *digest = malloc(VF_NWORDS * sizeof(VF_WORD_T));
        __CPROVER_assume(digest);
        hash_init_digest(digest);
        VF_CANARY();
}
"""


def annotate(alg, workdir, repo=REPO):
    d, block, log2, lenf, be, nwords, wt, swap, iv = ctxlayer.ALGS[alg]
    path = os.path.join(repo, d, "%s_ctx_base.c" % alg)
    text = open(path).read()
    A = alg.upper()
    fn_submit = re.findall(r"^(_?%s_ctx_mgr_submit_base)\(" % alg, text, re.M)
    if len(fn_submit) != 1:
        raise overlay.OverlayError("%s base: submit entry point not found" % alg)
    p = {
        "alg": alg, "fn_submit": fn_submit[0],
        "VF_CTX_T": "ISAL_%s_HASH_CTX" % A, "VF_MGR_T": "ISAL_%s_HASH_CTX_MGR" % A, "VF_JOB_T": "ISAL_%s_JOB" % A,
        "VF_JOBMGR_T": "ISAL_%s_MB_JOB_MGR" % A, "VF_WORD_T": wt, "VF_BLOCK": "%du" % block, "VF_LOG2": str(log2),
        "VF_LENF": "%du" % lenf, "VF_BE": str(be), "VF_NWORDS": str(nwords), "VF_SM3SWAP": str(swap), "VF_IVLIST": iv,
        "VF_LOOP_EXTRA": "",
    }
    defs = "".join("#define %s %s\n" % (k, v) for k, v in p.items() if k.startswith("VF_"))
    prelude = "\n/* ---- inserted by vf/ctxbase.py ---- */\n" + defs + '#include "ctxbase_prelude.h"\n'
    rules = [
        overlay.Rule("prelude", r'(?s)\A.*^#include "[^\n]*\n(?P<at>)', prelude),
        overlay.func_def_rule(p["fn_submit"], "VF_C_B_SUBMIT"),
        overlay.func_def_rule("%s_init" % alg, "VF_C_B_INIT"),
        overlay.func_def_rule("%s_update" % alg, "VF_C_B_UPDATE"),
        overlay.func_def_rule("%s_final" % alg, "VF_C_B_FINAL"),
        overlay.func_def_rule("%s_single" % alg, "VF_C_SINGLE"),
        overlay.func_def_rule("hash_init_digest", "VF_C_INIT_DIGEST"),
        overlay.nth_loop_rule("%s_update" % alg, r"while \(remain_len >= ISAL_%s_BLOCK_SIZE\)(?P<at>) \{" % A, "VF_L_B_UPDATE"),
    ]
    out, fired = overlay.apply(text, rules)
    overlay.require_loop_count(text, "%s_update" % alg, 1)
    out += HARNESS % p
    os.makedirs(workdir, exist_ok=True)
    dst = os.path.join(workdir, "%s_ctx_base.c" % alg)
    with open(dst, "w") as f:
        f.write(out)
    return dst, p, fired, overlay.sha256_text(text), os.path.relpath(path, repo), text


def jobs(workdir, algs=None, repo=REPO):
    js = []
    for alg in (algs or ctxlayer.ALGS):
        dst, p, fired, sha, rel, text = annotate(alg, workdir, repo)
        d = ctxlayer.ALGS[alg][0]
        inc = [os.path.join(repo, "include"), os.path.join(repo, d), os.path.join(VERIF, "contracts")]
        defs = ["SAFE_DATA", "SAFE_PARAM", "NDEBUG", "VF_NO_WORK"]
        lo, hi = overlay.function_span(text, "%s_update" % alg)
        cp = ["memcpy_sse_fixedlen"] if "memcpy_fixedlen" in text[lo:hi] else (["memcpy"] if "memcpy(" in text[lo:hi] else [])
        meta = {"file": rel, "sha256": sha, "aspect": "base", "fired": fired}
        single = "%s_single" % alg
        J = [
            ("init_digest", dict(entry="vf_h_init_digest", enforce="hash_init_digest", unwind=24)),
            ("init", dict(entry="vf_h_init", enforce="%s_init" % alg, replace=["hash_init_digest"], unwind=24)),
            ("update", dict(entry="vf_h_update", enforce="%s_update" % alg, replace=[single] + cp, loop_contracts=True, unwind=24,
                            expect_classes=["loop_invariant_step", "postcondition", "precondition"])),
            ("final", dict(entry="vf_h_final", enforce="%s_final" % alg, replace=[single, "memcpy"], unwind=264,
                           expect_classes=["postcondition", "precondition"])),
            ("submit", dict(entry="vf_h_submit", enforce=p["fn_submit"],
                            replace=["%s_init" % alg, "%s_update" % alg, "%s_final" % alg], unwind=24,
                            expect_classes=["postcondition", "precondition"])),
        ]
        for name, kw in J:
            if alg == "sha512" and name == "update":
                # run-time-length libc memcpy into the 128-byte partial buffer: cadical needs > 16 GB
                kw = dict(kw, solvers=["minisat"], split=True)
            js.append(Job("ctxbase/%s/%s" % (alg, name), [dst], includes=inc, defines=defs, meta=dict(meta, cost=100, role=name), **dict(dict(timeout=1800, solvers=["cadical"], mem_gb=16), **kw)))
    return js
