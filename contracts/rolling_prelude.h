/* rolling_prelude.h - contracts for rolling_hash/rolling_hash2.c (C09), version 2.
 *
 * Specification vocabulary (ghost, no quantifiers - everything is stated for ONE arbitrary witness):
 *   virtual stream  = the history the state held on entry (positions -w..-1, snapshot g_hist0)
 *                     followed by the buffer of this call (positions 0..len-1);
 *   g_H[p+1]        = ghost HASH STREAM: the rolling hash after consuming stream position p
 *                     (g_H[0] = hash on entry).  It is COMPUTED by ghost assignments the overlay puts
 *                     next to the real update (no assume): DEF(p):
 *                         g_H[p+1] == rol1(g_H[p]) ^ T1[byte(p)] ^ T2[byte(p-w)]
 *   T1, T2          = the state's own tables (g_t1, g_t2; not written by run/run_until: frame);
 *                     _rolling_hash2_init is proved to make T1 the PINNED table
 *                     (spec/rolling_table_golden.h) and T2[x] = rol(T1[x], w).
 * The closed form  g_H[p+1] == XOR_{j<w} rol(T1[byte(p-j)], j)  ("a fixed function of the last w bytes
 * alone") follows from DEF by induction; the induction steps are the code-independent lemma jobs
 * rolling/lemma_reset and rolling/lemma_step (harness/rolling_lemmas.c) over arbitrary table values.
 * Version 1 of this file carried the 48-term closed form through every contract; those proofs did not
 * finish (DESIGN.md sec. 8) - the decomposition DEF + lemma does.
 */
#include "rolling_table_golden.h"

#define VF_ROL64(x, n) ((((uint64_t) (x)) << ((n) & 63)) | (((uint64_t) (x)) >> ((64 - (n)) & 63)))

uint8_t g_hist0[48];   /* history on entry (snapshot taken by the harness) */
uint8_t *g_buf;        /* the buffer of this call (exact size g_len) */
uint32_t g_len;
int64_t g_k;           /* witness stream position (buffer coordinates) */
uint32_t g_j;          /* witness history index */
uint32_t g_w;          /* the window */
uint64_t *g_H;         /* ghost hash stream, g_len + 1 entries */
uint64_t *g_t1, *g_t2; /* the state's tables */

/* byte of the virtual stream at buffer coordinate p (-w <= p < len) */
#define VF_BYTE(B, p, w) ((p) < 0 ? g_hist0[(int64_t) (w) + (p)] : (B)[(p)])
#define VF_STEP(h, nw, od) (VF_ROL64(h, 1) ^ g_t1[(uint8_t) (nw)] ^ g_t2[(uint8_t) (od)])
#define VF_DEF(B, p) (g_H[(p) + 1] == VF_STEP(g_H[(p)], (B)[(p)], VF_BYTE(B, (int64_t) (p) - (int64_t) g_w, g_w)))
#define VF_MAXI(a, b) ((a) > (b) ? (a) : (b))
#define VF_IN(lo, x, hi) ((int64_t) (lo) <= (int64_t) (x) && (int64_t) (x) < (int64_t) (hi))

/* ghost assignments inserted by the overlay next to the real updates */
#define VF_G_RU(i) g_H[VF_B + (int64_t) (i) + 1] = VF_STEP(g_H[VF_B + (int64_t) (i)], b1[(i)], b2[(i)])
#define VF_G_RUN(i) g_H[(i) + 1] = VF_STEP(g_H[(i)], buffer[(i)], g_hist0[(i)])

/* _rolling_hash2_run_until_base: scan b1[*idx .. max_idx) where b1 points INTO the buffer of this call
 * (b1 = g_buf + VF_B; since fix `fix: rolling_hash2_run ...` the caller scans in pieces), b2 = b1 - w;
 * *idx >= w, so the window lies inside the buffer.  Stream position of b1[r] is VF_B + r. */
#define VF_POFF(p) ((int64_t) __CPROVER_POINTER_OFFSET(p))
#define VF_B (VF_POFF(b1) - VF_POFF(g_buf))
#define VF_RU_HIT ((int64_t) *idx < (int64_t) max_idx)
#define VF_C_RUN_UNTIL                                                                             \
        __CPROVER_requires(g_w >= 1 && g_w <= 48 && __CPROVER_same_object(b1, g_buf) && VF_B >= 0 && \
                           b2 == b1 - g_w && t1 == g_t1 && t2 == g_t2)                             \
        __CPROVER_requires(*idx >= g_w && *idx <= 0x7ffffffeu && VF_B + (int64_t) *idx <= (int64_t) g_len && \
                           VF_B + (int64_t) max_idx <= (int64_t) g_len)                            \
        __CPROVER_requires(h == g_H[VF_B + *idx])                                                  \
        __CPROVER_assigns(*idx, __CPROVER_object_from(&g_H[VF_B + *idx + 1]))                      \
        __CPROVER_ensures(*idx >= __CPROVER_old(*idx) &&                                           \
                          (int64_t) *idx <= VF_MAXI((int64_t) __CPROVER_old(*idx), (int64_t) max_idx)) \
        /* stopped early  <=>  the masked bits matched at *idx (the returned hash includes that byte) */ \
        __CPROVER_ensures(VF_RU_HIT ==> ((__CPROVER_return_value & mask) == (trigger & mask) &&    \
                                         __CPROVER_return_value == g_H[VF_B + *idx + 1]))          \
        __CPROVER_ensures(!VF_RU_HIT ==> __CPROVER_return_value == g_H[VF_B + *idx])               \
        /* every position consumed extends the hash stream by the rolling step ... */             \
        __CPROVER_ensures(VF_IN(VF_B + __CPROVER_old(*idx), g_k, VF_B + (int64_t) *idx + (VF_RU_HIT ? 1 : 0)) ==> VF_DEF(g_buf, g_k)) \
        /* ... and nothing before *idx was a hit */                                                \
        __CPROVER_ensures(VF_IN(VF_B + __CPROVER_old(*idx), g_k, VF_B + (int64_t) *idx) ==> (g_H[g_k + 1] & mask) != trigger)

#define VF_L_RUN_UNTIL                                                                             \
        __CPROVER_assigns(i, h, __CPROVER_object_from(&g_H[VF_B + (int64_t) vf_i0 + 1]))           \
        __CPROVER_loop_invariant((int64_t) i >= (int64_t) vf_i0 &&                                 \
                                 (int64_t) i <= VF_MAXI((int64_t) vf_i0, (int64_t) max_idx))       \
        __CPROVER_loop_invariant(h == g_H[VF_B + i])                                               \
        __CPROVER_loop_invariant(VF_IN(VF_B + vf_i0, g_k, VF_B + i) ==> (VF_DEF(g_buf, g_k) && (g_H[g_k + 1] & mask) != trigger)) \
        __CPROVER_decreases((int64_t) max_idx - (int64_t) i)

/* the piecewise scan loop of _rolling_hash2_run (entered with i == w) */
#define VF_L_RUN                                                                                   \
        __CPROVER_assigns(i, hash, __CPROVER_object_from(&g_H[g_w + 1]))                           \
        __CPROVER_loop_invariant(i >= g_w && i <= buffer_length && hash == g_H[i])                 \
        __CPROVER_loop_invariant(VF_IN(0, g_k, i) ==> (VF_DEF(g_buf, g_k) && (g_H[g_k + 1] & mask) != trigger)) \
        __CPROVER_decreases((int64_t) buffer_length - (int64_t) i)

/* ------------------------------------------------------------------------------------------ */
uint32_t g_t;   /* witness table index */

#define VF_C_RH_INIT                                                                               \
        __CPROVER_requires(__CPROVER_w_ok(state, sizeof(*state)) && g_t < 256u && w != 0u)         \
        __CPROVER_assigns(w <= 48u : state->table1, state->table2, state->w)                      \
        /* a refused window leaves the state untouched (empty frame above) */                     \
        __CPROVER_ensures(w > 48u ==> __CPROVER_return_value == -1)                                \
        __CPROVER_ensures(w <= 48u ==> (__CPROVER_return_value == 0 && state->w == w &&            \
                          state->table1[g_t] == vf_T1[g_t] &&                                      \
                          state->table2[g_t] == VF_ROL64(vf_T1[g_t], w)))

/* _rolling_hash2_reset: ghost partial-hash stream g_R[i] after i init bytes (g_R[0] = 0) */
uint64_t g_R[49];
#define VF_G_RESET(i) g_R[(i) + 1] = VF_ROL64(g_R[(i)], 1) ^ state->table1[init_bytes[(i)]]
#define VF_C_RH_RESET                                                                              \
        __CPROVER_requires(state->w == g_w && g_w >= 1 && g_w <= 48 && g_j < g_w && g_R[0] == 0)   \
        __CPROVER_requires(state->table1 == g_t1)                                                  \
        __CPROVER_assigns(state->hash, state->history, g_R)                                        \
        __CPROVER_ensures(state->hash == g_R[g_w] && g_R[0] == 0)                                  \
        __CPROVER_ensures(VF_IN(0, g_k, g_w) ==> g_R[g_k + 1] == (VF_ROL64(g_R[g_k], 1) ^ g_t1[init_bytes[g_k]])) \
        __CPROVER_ensures(state->history[g_j] == init_bytes[g_j])

/* the dispatched scan (NASM _00/_04 or the C loop): ASSUMED to satisfy the contract proved for _base */
extern uint64_t
_rolling_hash2_run_until(uint32_t *idx, int max_idx, uint64_t *t1, uint64_t *t2, uint8_t *b1,
                         uint8_t *b2, uint64_t h, uint64_t mask, uint64_t trigger)
VF_C_RUN_UNTIL
;

#define VF_RET_HIT 0
#define VF_RET_MAX 1
#define VF_RUN_HIT (__CPROVER_return_value == VF_RET_HIT)
/* _rolling_hash2_run: stream = history on entry (positions -w..-1) followed by the buffer */
#define VF_C_RH_RUN                                                                                \
        __CPROVER_requires(state->w == g_w && g_w >= 1 && g_w <= 48 && g_j < g_w)                  \
        __CPROVER_requires(buffer == g_buf && buffer_length == g_len)      \
        __CPROVER_requires(state->table1 == g_t1 && state->table2 == g_t2)                         \
        __CPROVER_requires(state->hash == g_H[0]) /* hash of the last w bytes seen so far */       \
        __CPROVER_assigns(state->hash, state->history, *offset, __CPROVER_object_from(&g_H[1]))    \
        __CPROVER_ensures(__CPROVER_return_value == VF_RET_HIT || __CPROVER_return_value == VF_RET_MAX) \
        __CPROVER_ensures(*offset <= buffer_length)                                                \
        __CPROVER_ensures(__CPROVER_return_value == VF_RET_MAX ==> *offset == buffer_length)       \
        /* the hash stream over the consumed positions is the rolling recurrence */               \
        __CPROVER_ensures(VF_IN(0, g_k, *offset) ==> VF_DEF(buffer, g_k))                          \
        /* a hit is reported exactly at the first position whose hash matches */                   \
        __CPROVER_ensures(VF_RUN_HIT ==> (*offset >= 1 && (g_H[*offset] & mask) == trigger))       \
        __CPROVER_ensures(VF_IN(0, g_k, (int64_t) *offset - (VF_RUN_HIT ? 1 : 0)) ==> (g_H[g_k + 1] & mask) != trigger) \
        /* state for the next call: hash and history of the last w stream bytes */                 \
        __CPROVER_ensures(state->hash == g_H[*offset])                                             \
        __CPROVER_ensures(state->history[g_j] == VF_BYTE(buffer, (int64_t) *offset - (int64_t) g_w + g_j, g_w))

/* ------------------------------------------------------------------------------------------ */
/* libc copies with run-time length (<= 48) into the history: witness-address contracts.
 * g_dw is the fixed address &state->history[g_j] (assigned by the harness). */
uint8_t *g_dw;
uint8_t *g_histbase; /* == state->history */
#define VF_DW_IN(dst, n)                                                                           \
        (__CPROVER_same_object(g_dw, (dst)) && __CPROVER_POINTER_OFFSET(g_dw) >= __CPROVER_POINTER_OFFSET(dst) && \
         __CPROVER_POINTER_OFFSET(g_dw) < __CPROVER_POINTER_OFFSET(dst) + (n))
#define VF_DW_OFF(dst) (__CPROVER_POINTER_OFFSET(g_dw) - __CPROVER_POINTER_OFFSET(dst))
void *
memcpy(void *dst, const void *src, size_t n)
        /* clang-format off */
__CPROVER_requires(n <= 48 && __CPROVER_r_ok(src, n) && __CPROVER_w_ok(dst, n))
__CPROVER_requires(!__CPROVER_same_object(dst, src)) /* every memcpy of this file copies between different objects */
__CPROVER_assigns(__CPROVER_object_upto(dst, n))
__CPROVER_ensures(__CPROVER_return_value == dst)
__CPROVER_ensures(VF_DW_IN(dst, n) ==> *g_dw == ((const uint8_t *) src)[VF_DW_OFF(dst)])
        /* clang-format on */
        ;
/* the only memmove of this file shifts the history down: src = history + i, dst = history */
void *
memmove(void *dst, const void *src, size_t n)
        /* clang-format off */
__CPROVER_requires(n <= 48 && __CPROVER_r_ok(src, n) && __CPROVER_w_ok(dst, n))
__CPROVER_requires(dst == (void *) g_histbase && __CPROVER_same_object(src, g_histbase) &&
                   __CPROVER_POINTER_OFFSET(src) - __CPROVER_POINTER_OFFSET(g_histbase) + n <= 48)
__CPROVER_assigns(__CPROVER_object_upto(dst, n))
__CPROVER_ensures(__CPROVER_return_value == dst)
/* g_hist0 is the history on entry of _rolling_hash2_run, which does not write it before this call */
__CPROVER_ensures(VF_DW_IN(dst, n) ==>
                  *g_dw == g_hist0[(__CPROVER_POINTER_OFFSET(src) - __CPROVER_POINTER_OFFSET(g_histbase)) + VF_DW_OFF(dst)])
        /* clang-format on */
        ;
