/* rolling_prelude.h - contracts for rolling_hash/rolling_hash2.c (C09), version 2.
 *
 * Specification vocabulary (ghost, no quantifiers - everything is stated for ONE arbitrary witness):
 *   virtual stream  = the history the state held on entry (positions -w..-1, snapshot g_hist0)
 *                     followed by the buffer of this call (positions 0..len-1);
 *   g_H[p+1]        = ghost HASH STREAM: the rolling hash after consuming stream position p
 *                     (g_H[0] = hash on entry).  It is COMPUTED by ghost assignments the overlay puts
 *                     next to the real update (no assume): DEF(p):
 *                         g_H[p+1] == rol1(g_H[p]) ^ T1[byte(p)] ^ T2[byte(p-w)]
 *   T1, T2          = the state's own tables (g_t1, g_t2; not written by run/run_until: frame);
 *                     _rolling_hash2_init is proved to make T1 the PINNED table
 *                     (spec/rolling_table_golden.h) and T2[x] = rol(T1[x], w).
 * The closed form  g_H[p+1] == XOR_{j<w} rol(T1[byte(p-j)], j)  ("a fixed function of the last w bytes
 * alone") follows from DEF by induction; the induction steps are the code-independent lemma jobs
 * rolling/lemma_reset and rolling/lemma_step (harness/rolling_lemmas.c) over arbitrary table values.
 * Version 1 of this file carried the 48-term closed form through every contract; those proofs did not
 * finish (DESIGN.md sec. 8) - the decomposition DEF + lemma does.
 */
#include "rolling_table_golden.h"

#define VF_ROL64(x, n) ((((uint64_t) (x)) << ((n) & 63)) | (((uint64_t) (x)) >> ((64 - (n)) & 63)))

uint8_t g_hist0[48];   /* history on entry (snapshot taken by the harness) */
uint8_t *g_buf;        /* the buffer of this call (exact size g_len) */
uint32_t g_len;
int64_t g_k;           /* witness stream position (buffer coordinates) */
uint32_t g_j;          /* witness history index */
uint32_t g_w;          /* the window */
uint64_t *g_H;         /* ghost hash stream, g_len + 1 entries */
uint64_t *g_t1, *g_t2; /* the state's tables */

/* byte of the virtual stream at buffer coordinate p (-w <= p < len) */
#define VF_BYTE(B, p, w) ((p) < 0 ? g_hist0[(int64_t) (w) + (p)] : (B)[(p)])
#define VF_STEP(h, nw, od) (VF_ROL64(h, 1) ^ g_t1[(uint8_t) (nw)] ^ g_t2[(uint8_t) (od)])
#define VF_DEF(B, p) (g_H[(p) + 1] == VF_STEP(g_H[(p)], (B)[(p)], VF_BYTE(B, (int64_t) (p) - (int64_t) g_w, g_w)))
#define VF_MAXI(a, b) ((a) > (b) ? (a) : (b))
#define VF_IN(lo, x, hi) ((int64_t) (lo) <= (int64_t) (x) && (int64_t) (x) < (int64_t) (hi))

/* ghost assignments inserted by the overlay next to the real updates */
#define VF_G_RU(i) g_H[VF_B + (int64_t) (i) + 1] = VF_STEP(g_H[VF_B + (int64_t) (i)], g_buf[VF_B + (int64_t) (i)], g_buf[VF_B + (int64_t) (i) - (int64_t) g_w])
#define VF_G_RUN(i) g_H[(i) + 1] = VF_STEP(g_H[(i)], buffer[(i)], g_hist0[(i)])

/* _rolling_hash2_run_until_base: scan b1[*idx .. max_idx) where b1 points INTO the buffer of this call
 * (b1 = g_buf + VF_B; since fix `fix: rolling_hash2_run ...` the caller scans in pieces), b2 = b1 - w;
 * *idx >= w, so the window lies inside the buffer.  Stream position of b1[r] is VF_B + r. */
uint32_t g_base; /* ghost: b1 == g_buf + g_base (set by a ghost assignment before the call in _rolling_hash2_run) */
#define VF_B ((int64_t) g_base)
#define VF_RU_HIT ((int64_t) *idx < (int64_t) max_idx)
#define VF_C_RUN_UNTIL                                                                             \
        __CPROVER_requires(g_w >= 1 && g_w <= 48 && b1 == g_buf + g_base && b2 == g_buf + g_base - g_w && \
                           t1 == g_t1 && t2 == g_t2)                                               \
        __CPROVER_requires(*idx >= g_w && *idx <= 0x7ffffffeu && VF_B + (int64_t) *idx <= (int64_t) g_len && \
                           VF_B + (int64_t) max_idx <= (int64_t) g_len)                            \
        __CPROVER_requires(h == g_H[VF_B + *idx] && g_k >= 0 && g_k <= (int64_t) g_len)            \
        __CPROVER_assigns(*idx, __CPROVER_object_whole(g_H))                                       \
        /* entries up to the start position keep their values (witness form; whole-object frame is cheap to havoc) */ \
        __CPROVER_ensures((g_k >= 0 && g_k + 1 <= VF_B + (int64_t) __CPROVER_old(*idx)) ==>        \
                          (g_H[g_k] == __CPROVER_old(g_H[g_k]) && g_H[g_k + 1] == __CPROVER_old(g_H[g_k + 1]))) \
        __CPROVER_ensures(*idx >= __CPROVER_old(*idx) &&                                           \
                          (int64_t) *idx <= VF_MAXI((int64_t) __CPROVER_old(*idx), (int64_t) max_idx)) \
        /* the stream origin and the entry of the start position (== h) keep their values */      \
        __CPROVER_ensures(g_H[0] == __CPROVER_old(g_H[0]))                                         \
        __CPROVER_ensures(g_H[VF_B + (int64_t) __CPROVER_old(*idx)] == __CPROVER_old(g_H[VF_B + *idx])) \
        /* stopped early  <=>  the masked bits matched at *idx (the returned hash includes that byte) */ \
        __CPROVER_ensures(VF_RU_HIT ==> ((__CPROVER_return_value & mask) == (trigger & mask) &&    \
                                         __CPROVER_return_value == g_H[VF_B + *idx + 1]))          \
        __CPROVER_ensures(!VF_RU_HIT ==> __CPROVER_return_value == g_H[VF_B + *idx])               \
        /* ran to the end: the last position consumed was tested too */                           \
        __CPROVER_ensures((!VF_RU_HIT && *idx > __CPROVER_old(*idx)) ==> (__CPROVER_return_value & mask) != trigger) \
        /* every position consumed extends the hash stream by the rolling step ... */             \
        __CPROVER_ensures(VF_IN(VF_B + __CPROVER_old(*idx), g_k, VF_B + (int64_t) *idx) ==> VF_DEF(g_buf, g_k)) \
        __CPROVER_ensures((VF_RU_HIT && g_k == VF_B + (int64_t) *idx) ==> VF_DEF(g_buf, g_k))     \
        /* ... and nothing before *idx was a hit */                                                \
        __CPROVER_ensures(VF_IN(VF_B + __CPROVER_old(*idx), g_k, VF_B + (int64_t) *idx) ==> (g_H[g_k + 1] & mask) != trigger)

#define VF_L_RUN_UNTIL                                                                             \
        __CPROVER_assigns(i, h, __CPROVER_object_whole(g_H))                                       \
        __CPROVER_loop_invariant((g_k >= 0 && g_k + 1 <= VF_B + (int64_t) vf_i0) ==>               \
                                 (g_H[g_k] == __CPROVER_loop_entry(g_H[g_k]) && g_H[g_k + 1] == __CPROVER_loop_entry(g_H[g_k + 1]))) \
        __CPROVER_loop_invariant((int64_t) i >= (int64_t) vf_i0 &&                                 \
                                 (int64_t) i <= VF_MAXI((int64_t) vf_i0, (int64_t) max_idx))       \
        __CPROVER_loop_invariant(h == g_H[VF_B + i] && ((int64_t) i > (int64_t) vf_i0 ==> (h & mask) != trigger)) \
        __CPROVER_loop_invariant(g_H[VF_B + (int64_t) vf_i0] == __CPROVER_loop_entry(g_H[VF_B + (int64_t) vf_i0]) && \
                                 g_H[0] == __CPROVER_loop_entry(g_H[0]))                           \
        __CPROVER_loop_invariant(VF_IN(VF_B + vf_i0, g_k, VF_B + i) ==> (VF_DEF(g_buf, g_k) && (g_H[g_k + 1] & mask) != trigger)) \
        __CPROVER_decreases((int64_t) max_idx - (int64_t) i)

/* the first loop of _rolling_hash2_run (old bytes come from the history): loop contract.  The body writes the
 * history only on paths that return, so on every path that stays in the loop the history still equals the
 * snapshot - stated for all 48 bytes explicitly (no quantifier). */
#define VF_HISTEQ                                                                                  \
        (state->history[0] == g_hist0[0] && \
         state->history[1] == g_hist0[1] && \
         state->history[2] == g_hist0[2] && \
         state->history[3] == g_hist0[3] && \
         state->history[4] == g_hist0[4] && \
         state->history[5] == g_hist0[5] && \
         state->history[6] == g_hist0[6] && \
         state->history[7] == g_hist0[7] && \
         state->history[8] == g_hist0[8] && \
         state->history[9] == g_hist0[9] && \
         state->history[10] == g_hist0[10] && \
         state->history[11] == g_hist0[11] && \
         state->history[12] == g_hist0[12] && \
         state->history[13] == g_hist0[13] && \
         state->history[14] == g_hist0[14] && \
         state->history[15] == g_hist0[15] && \
         state->history[16] == g_hist0[16] && \
         state->history[17] == g_hist0[17] && \
         state->history[18] == g_hist0[18] && \
         state->history[19] == g_hist0[19] && \
         state->history[20] == g_hist0[20] && \
         state->history[21] == g_hist0[21] && \
         state->history[22] == g_hist0[22] && \
         state->history[23] == g_hist0[23] && \
         state->history[24] == g_hist0[24] && \
         state->history[25] == g_hist0[25] && \
         state->history[26] == g_hist0[26] && \
         state->history[27] == g_hist0[27] && \
         state->history[28] == g_hist0[28] && \
         state->history[29] == g_hist0[29] && \
         state->history[30] == g_hist0[30] && \
         state->history[31] == g_hist0[31] && \
         state->history[32] == g_hist0[32] && \
         state->history[33] == g_hist0[33] && \
         state->history[34] == g_hist0[34] && \
         state->history[35] == g_hist0[35] && \
         state->history[36] == g_hist0[36] && \
         state->history[37] == g_hist0[37] && \
         state->history[38] == g_hist0[38] && \
         state->history[39] == g_hist0[39] && \
         state->history[40] == g_hist0[40] && \
         state->history[41] == g_hist0[41] && \
         state->history[42] == g_hist0[42] && \
         state->history[43] == g_hist0[43] && \
         state->history[44] == g_hist0[44] && \
         state->history[45] == g_hist0[45] && \
         state->history[46] == g_hist0[46] && \
         state->history[47] == g_hist0[47])
#define VF_L_RUN0                                                                                  \
        __CPROVER_assigns(i, hash, __CPROVER_object_whole(g_H), state->history, state->hash, *offset) \
        __CPROVER_loop_invariant(i <= g_w && i <= buffer_length && hash == g_H[i])                 \
        __CPROVER_loop_invariant(i > 0 ==> (hash & mask) != trigger) /* the last position consumed was tested */ \
        __CPROVER_loop_invariant(g_H[0] == __CPROVER_loop_entry(g_H[0]))                           \
        __CPROVER_loop_invariant(VF_HISTEQ)                                                        \
        __CPROVER_loop_invariant(VF_IN(0, g_k, i) ==> (VF_DEF(g_buf, g_k) && (g_H[g_k + 1] & mask) != trigger)) \
        __CPROVER_decreases((int64_t) g_w - (int64_t) i)

/* the piecewise scan loop of _rolling_hash2_run (entered with i == w) */
#define VF_L_RUN                                                                                   \
        __CPROVER_assigns(i, hash, g_base, __CPROVER_object_whole(g_H))                            \
        __CPROVER_loop_invariant(i >= g_w && i <= buffer_length && hash == g_H[i] && (hash & mask) != trigger) \
        __CPROVER_loop_invariant(g_H[0] == __CPROVER_loop_entry(g_H[0]))                           \
        __CPROVER_loop_invariant(VF_IN(0, g_k, i) ==> (VF_DEF(g_buf, g_k) && (g_H[g_k + 1] & mask) != trigger)) \
        __CPROVER_decreases((int64_t) buffer_length - (int64_t) i)

/* ------------------------------------------------------------------------------------------ */
uint32_t g_t;   /* witness table index */

#define VF_C_RH_INIT                                                                               \
        __CPROVER_requires(__CPROVER_w_ok(state, sizeof(*state)) && g_t < 256u && w != 0u)         \
        __CPROVER_assigns(w <= 48u : state->table1, state->table2, state->w)                      \
        /* a refused window leaves the state untouched (empty frame above) */                     \
        __CPROVER_ensures(w > 48u ==> __CPROVER_return_value == -1)                                \
        __CPROVER_ensures(w <= 48u ==> (__CPROVER_return_value == 0 && state->w == w &&            \
                          state->table1[g_t] == vf_T1[g_t] &&                                      \
                          state->table2[g_t] == VF_ROL64(vf_T1[g_t], w)))

/* _rolling_hash2_reset: ghost partial-hash stream g_R[i] after i init bytes (g_R[0] = 0) */
uint64_t g_R[49];
#define VF_G_RESET(i) g_R[(i) + 1] = VF_ROL64(g_R[(i)], 1) ^ state->table1[init_bytes[(i)]]
#define VF_L_RESET                                                                                 \
        __CPROVER_assigns(i, hash, g_R)                                                            \
        __CPROVER_loop_invariant(i <= g_w && hash == g_R[i] && g_R[0] == 0)                        \
        __CPROVER_loop_invariant(VF_IN(0, g_k, i) ==> g_R[g_k + 1] == (VF_ROL64(g_R[g_k], 1) ^ g_t1[init_bytes[g_k]])) \
        __CPROVER_decreases((int64_t) g_w - (int64_t) i)
#define VF_C_RH_RESET                                                                              \
        __CPROVER_requires(state->w == g_w && g_w >= 1 && g_w <= 48 && g_j < g_w && g_R[0] == 0)   \
        __CPROVER_requires(state->table1 == g_t1)                                                  \
        __CPROVER_assigns(state->hash, state->history, g_R)                                        \
        __CPROVER_ensures(state->hash == g_R[g_w] && g_R[0] == 0)                                  \
        __CPROVER_ensures(VF_IN(0, g_k, g_w) ==> g_R[g_k + 1] == (VF_ROL64(g_R[g_k], 1) ^ g_t1[init_bytes[g_k]])) \
        __CPROVER_ensures(state->history[g_j] == init_bytes[g_j])

/* the dispatched scan (NASM _00/_04 or the C loop): ASSUMED to satisfy the contract proved for _base */
extern uint64_t
_rolling_hash2_run_until(uint32_t *idx, int max_idx, uint64_t *t1, uint64_t *t2, uint8_t *b1,
                         uint8_t *b2, uint64_t h, uint64_t mask, uint64_t trigger)
VF_C_RUN_UNTIL
;

/* DEF for the positions whose old byte comes from the history (g_k < w) as a FUNCTION-LEVEL ensures did not finish on any
 * back end within 30 minutes (the same fact is proved as loop invariant of both loops, obligations loop_invariant_step of
 * VF_L_RUN0 / VF_L_RUN): it is compiled in only with -DVF_RUN_DEF_HEAD_ON (DESIGN.md sec. 8). */
#ifdef VF_RUN_DEF_HEAD_ON
#define VF_RUN_DEF_HEAD __CPROVER_ensures((VF_IN(0, g_k, *offset) && g_k < (int64_t) g_w) ==> VF_DEF(buffer, g_k))
#else
#define VF_RUN_DEF_HEAD
#endif
#define VF_RET_HIT 0
#define VF_RET_MAX 1
#define VF_RUN_HIT (__CPROVER_return_value == VF_RET_HIT)
/* _rolling_hash2_run: stream = history on entry (positions -w..-1) followed by the buffer */
#define VF_C_RH_RUN                                                                                \
        __CPROVER_requires(state->w == g_w && g_w >= 1 && g_w <= 48 && g_j < g_w)                  \
        __CPROVER_requires(buffer == g_buf && buffer_length == g_len)      \
        __CPROVER_requires(state->table1 == g_t1 && state->table2 == g_t2)                         \
        __CPROVER_requires(state->hash == g_H[0]) /* hash of the last w bytes seen so far */       \
        __CPROVER_requires(g_k >= 0 && g_k <= (int64_t) g_len) /* domain of the witness position */ \
        __CPROVER_assigns(state->hash, state->history, *offset, g_base, __CPROVER_object_whole(g_H)) \
        __CPROVER_ensures(g_H[0] == __CPROVER_old(g_H[0]))                                         \
        __CPROVER_ensures(__CPROVER_return_value == VF_RET_HIT || __CPROVER_return_value == VF_RET_MAX) \
        __CPROVER_ensures(*offset <= buffer_length)                                                \
        __CPROVER_ensures(__CPROVER_return_value == VF_RET_MAX ==> *offset == buffer_length)       \
        /* the hash stream over the consumed positions is the rolling recurrence */               \
        VF_RUN_DEF_HEAD                                                                            \
        __CPROVER_ensures((VF_IN(0, g_k, *offset) && g_k >= (int64_t) g_w) ==> VF_DEF(buffer, g_k)) /* positions consumed by the scans */ \
        /* a hit is reported exactly at the first position whose hash matches */                   \
        __CPROVER_ensures(VF_RUN_HIT ==> (*offset >= 1 && (g_H[*offset] & mask) == trigger))       \
        __CPROVER_ensures(VF_IN(0, g_k, (int64_t) *offset - (VF_RUN_HIT ? 1 : 0)) ==> (g_H[g_k + 1] & mask) != trigger) \
        /* state for the next call: hash and history of the last w stream bytes */                 \
        __CPROVER_ensures(state->hash == g_H[*offset])                                             \
        __CPROVER_ensures(state->history[g_j] == VF_BYTE(buffer, (int64_t) *offset - (int64_t) g_w + g_j, g_w))

/* ------------------------------------------------------------------------------------------ */
/* libc copies with run-time length (<= 48) into the history: witness-address contracts.
 * g_dw is the fixed address &state->history[g_j] (assigned by the harness). */
uint8_t *g_dw;
uint8_t *g_histbase; /* == state->history */
#define VF_DW_IN(dst, n)                                                                           \
        (__CPROVER_same_object(g_dw, (dst)) && __CPROVER_POINTER_OFFSET(g_dw) >= __CPROVER_POINTER_OFFSET(dst) && \
         __CPROVER_POINTER_OFFSET(g_dw) < __CPROVER_POINTER_OFFSET(dst) + (n))
#define VF_DW_OFF(dst) (__CPROVER_POINTER_OFFSET(g_dw) - __CPROVER_POINTER_OFFSET(dst))
/* Frames: the WHOLE 48-byte history array (constant size: cheap to havoc; a run-time-length slice is not);
 * the witness byte is either the copied byte or keeps its value. */
#define VF_IN_HIST(dst, n)                                                                         \
        (__CPROVER_same_object(dst, g_histbase) && __CPROVER_POINTER_OFFSET(dst) >= __CPROVER_POINTER_OFFSET(g_histbase) && \
         __CPROVER_POINTER_OFFSET(dst) - __CPROVER_POINTER_OFFSET(g_histbase) + (n) <= 48)
void *
memcpy(void *dst, const void *src, size_t n)
        /* clang-format off */
__CPROVER_requires(n <= 48 && __CPROVER_r_ok(src, n) && __CPROVER_w_ok(dst, n) && VF_IN_HIST(dst, n))
__CPROVER_requires(!__CPROVER_same_object(dst, src)) /* every memcpy of this file copies between different objects */
__CPROVER_assigns(__CPROVER_object_upto(g_histbase, 48))
__CPROVER_ensures(__CPROVER_return_value == dst)
__CPROVER_ensures(VF_DW_IN(dst, n) ? *g_dw == ((const uint8_t *) src)[VF_DW_OFF(dst)] : *g_dw == __CPROVER_old(*g_dw))
        /* clang-format on */
        ;
/* the only memmove of this file shifts the history down: src = history + i, dst = history */
void *
memmove(void *dst, const void *src, size_t n)
        /* clang-format off */
__CPROVER_requires(n <= 48 && __CPROVER_r_ok(src, n) && __CPROVER_w_ok(dst, n))
__CPROVER_requires(dst == (void *) g_histbase && __CPROVER_same_object(src, g_histbase) &&
                   __CPROVER_POINTER_OFFSET(src) - __CPROVER_POINTER_OFFSET(g_histbase) + n <= 48)
__CPROVER_assigns(__CPROVER_object_upto(g_histbase, 48))
__CPROVER_ensures(__CPROVER_return_value == dst)
/* g_hist0 is the history on entry of _rolling_hash2_run, which does not write it before this call */
__CPROVER_ensures(VF_DW_IN(dst, n) ? *g_dw == g_hist0[(__CPROVER_POINTER_OFFSET(src) - __CPROVER_POINTER_OFFSET(g_histbase)) + VF_DW_OFF(dst)]
                                   : *g_dw == __CPROVER_old(*g_dw))
        /* clang-format on */
        ;
