/* rolling_prelude.h - contracts for rolling_hash/rolling_hash2.c (C09).
 *
 * Specification (ghost): the hash of a window of w bytes ending at stream position e is
 *      H(e) = XOR_{j<w} rol64(T1[byte(e-j)], j)
 * with T1 the PINNED constant table (spec/rolling_table_golden.h).  "byte(p)" is the virtual
 * stream: positions < 0 come from the history the state held on entry (earlier bytes), positions
 * >= 0 from the buffer of this call.  Everything is stated for one arbitrary witness position
 * (g_k, g_j): no quantifiers.
 */
#include "rolling_table_golden.h"

#define VF_ROL64(x, n) ((((uint64_t) (x)) << ((n) & 63)) | (((uint64_t) (x)) >> ((64 - (n)) & 63)))

uint8_t g_hist0[48];   /* history on entry (snapshot taken by the harness) */
uint8_t *g_buf;        /* the buffer of this call (exact size g_len) */
uint32_t g_len;
int64_t g_k;           /* witness stream position (buffer coordinates) */
uint32_t g_j;          /* witness history index */
uint32_t g_w;          /* the window */

/* byte of the virtual stream at buffer coordinate p (-w <= p < len) */
#define VF_BYTE(B, p, w) ((p) < 0 ? g_hist0[(int64_t) (w) + (p)] : (B)[(p)])
#define VF_TERM(B, e, w, j) ((uint32_t) (j) < (w) ? VF_ROL64(vf_T1[VF_BYTE(B, (int64_t) (e) - (j), w)], j) : 0ull)
#define VF_H(B, e, w) \
        (VF_TERM(B, e, w, 0) ^ \
         VF_TERM(B, e, w, 1) ^ \
         VF_TERM(B, e, w, 2) ^ \
         VF_TERM(B, e, w, 3) ^ \
         VF_TERM(B, e, w, 4) ^ \
         VF_TERM(B, e, w, 5) ^ \
         VF_TERM(B, e, w, 6) ^ \
         VF_TERM(B, e, w, 7) ^ \
         VF_TERM(B, e, w, 8) ^ \
         VF_TERM(B, e, w, 9) ^ \
         VF_TERM(B, e, w, 10) ^ \
         VF_TERM(B, e, w, 11) ^ \
         VF_TERM(B, e, w, 12) ^ \
         VF_TERM(B, e, w, 13) ^ \
         VF_TERM(B, e, w, 14) ^ \
         VF_TERM(B, e, w, 15) ^ \
         VF_TERM(B, e, w, 16) ^ \
         VF_TERM(B, e, w, 17) ^ \
         VF_TERM(B, e, w, 18) ^ \
         VF_TERM(B, e, w, 19) ^ \
         VF_TERM(B, e, w, 20) ^ \
         VF_TERM(B, e, w, 21) ^ \
         VF_TERM(B, e, w, 22) ^ \
         VF_TERM(B, e, w, 23) ^ \
         VF_TERM(B, e, w, 24) ^ \
         VF_TERM(B, e, w, 25) ^ \
         VF_TERM(B, e, w, 26) ^ \
         VF_TERM(B, e, w, 27) ^ \
         VF_TERM(B, e, w, 28) ^ \
         VF_TERM(B, e, w, 29) ^ \
         VF_TERM(B, e, w, 30) ^ \
         VF_TERM(B, e, w, 31) ^ \
         VF_TERM(B, e, w, 32) ^ \
         VF_TERM(B, e, w, 33) ^ \
         VF_TERM(B, e, w, 34) ^ \
         VF_TERM(B, e, w, 35) ^ \
         VF_TERM(B, e, w, 36) ^ \
         VF_TERM(B, e, w, 37) ^ \
         VF_TERM(B, e, w, 38) ^ \
         VF_TERM(B, e, w, 39) ^ \
         VF_TERM(B, e, w, 40) ^ \
         VF_TERM(B, e, w, 41) ^ \
         VF_TERM(B, e, w, 42) ^ \
         VF_TERM(B, e, w, 43) ^ \
         VF_TERM(B, e, w, 44) ^ \
         VF_TERM(B, e, w, 45) ^ \
         VF_TERM(B, e, w, 46) ^ \
         VF_TERM(B, e, w, 47))
/* window entirely inside a plain array P ending at index e (no history): P[e-j] */
#define VF_TERMP(P, e, w, j) ((uint32_t) (j) < (w) ? VF_ROL64(vf_T1[(P)[(int64_t) (e) - (j)]], j) : 0ull)
#define VF_HP(P, e, w) \
        (VF_TERMP(P, e, w, 0) ^ \
         VF_TERMP(P, e, w, 1) ^ \
         VF_TERMP(P, e, w, 2) ^ \
         VF_TERMP(P, e, w, 3) ^ \
         VF_TERMP(P, e, w, 4) ^ \
         VF_TERMP(P, e, w, 5) ^ \
         VF_TERMP(P, e, w, 6) ^ \
         VF_TERMP(P, e, w, 7) ^ \
         VF_TERMP(P, e, w, 8) ^ \
         VF_TERMP(P, e, w, 9) ^ \
         VF_TERMP(P, e, w, 10) ^ \
         VF_TERMP(P, e, w, 11) ^ \
         VF_TERMP(P, e, w, 12) ^ \
         VF_TERMP(P, e, w, 13) ^ \
         VF_TERMP(P, e, w, 14) ^ \
         VF_TERMP(P, e, w, 15) ^ \
         VF_TERMP(P, e, w, 16) ^ \
         VF_TERMP(P, e, w, 17) ^ \
         VF_TERMP(P, e, w, 18) ^ \
         VF_TERMP(P, e, w, 19) ^ \
         VF_TERMP(P, e, w, 20) ^ \
         VF_TERMP(P, e, w, 21) ^ \
         VF_TERMP(P, e, w, 22) ^ \
         VF_TERMP(P, e, w, 23) ^ \
         VF_TERMP(P, e, w, 24) ^ \
         VF_TERMP(P, e, w, 25) ^ \
         VF_TERMP(P, e, w, 26) ^ \
         VF_TERMP(P, e, w, 27) ^ \
         VF_TERMP(P, e, w, 28) ^ \
         VF_TERMP(P, e, w, 29) ^ \
         VF_TERMP(P, e, w, 30) ^ \
         VF_TERMP(P, e, w, 31) ^ \
         VF_TERMP(P, e, w, 32) ^ \
         VF_TERMP(P, e, w, 33) ^ \
         VF_TERMP(P, e, w, 34) ^ \
         VF_TERMP(P, e, w, 35) ^ \
         VF_TERMP(P, e, w, 36) ^ \
         VF_TERMP(P, e, w, 37) ^ \
         VF_TERMP(P, e, w, 38) ^ \
         VF_TERMP(P, e, w, 39) ^ \
         VF_TERMP(P, e, w, 40) ^ \
         VF_TERMP(P, e, w, 41) ^ \
         VF_TERMP(P, e, w, 42) ^ \
         VF_TERMP(P, e, w, 43) ^ \
         VF_TERMP(P, e, w, 44) ^ \
         VF_TERMP(P, e, w, 45) ^ \
         VF_TERMP(P, e, w, 46) ^ \
         VF_TERMP(P, e, w, 47))

/* ------------------------------------------------------------------------------------------ */
#define VF_MAXI(a, b) ((a) > (b) ? (a) : (b))
#define VF_NOHIT_UPTO(B_HASH_AT_K, lo, hi, mask, trigger)                                          \
        (!((lo) <= g_k && g_k < (hi)) || (((B_HASH_AT_K) & (mask)) != (trigger)))

/* _rolling_hash2_run_until_base: scan from *idx (>= w, window inside the buffer) */
#define VF_C_RUN_UNTIL                                                                             \
        __CPROVER_requires(g_w >= 1 && g_w <= 48 && b1 == g_buf && b2 == g_buf - g_w)             \
        __CPROVER_requires(*idx >= g_w && *idx <= 0x7fffffffu && *idx <= g_len && max_idx <= (int64_t) g_len)       \
        __CPROVER_requires(h == VF_HP(b1, (int64_t) *idx - 1, g_w))                                \
        __CPROVER_assigns(*idx)                                                                    \
        __CPROVER_ensures(*idx >= __CPROVER_old(*idx) &&                                           \
                          (int64_t) *idx <= VF_MAXI((int64_t) __CPROVER_old(*idx), (int64_t) max_idx)) \
        /* stopped early  <=>  hit at *idx */                                                      \
        __CPROVER_ensures((int64_t) *idx < (int64_t) max_idx ==>                                   \
                          ((__CPROVER_return_value & mask) == trigger &&                           \
                           __CPROVER_return_value == VF_HP(b1, (int64_t) *idx, g_w)))              \
        __CPROVER_ensures(((int64_t) *idx >= (int64_t) max_idx) ==>                                \
                          __CPROVER_return_value == VF_HP(b1, (int64_t) *idx - 1, g_w))            \
        /* nothing before *idx was a hit */                                                        \
        __CPROVER_ensures(VF_NOHIT_UPTO(VF_HP(b1, g_k, g_w), (int64_t) __CPROVER_old(*idx),        \
                                        (int64_t) *idx, mask, trigger))

#define VF_L_RUN_UNTIL                                                                             \
        __CPROVER_assigns(i, h)                                                                    \
        __CPROVER_loop_invariant((int64_t) i >= (int64_t) vf_i0 &&                                 \
                                 (int64_t) i <= VF_MAXI((int64_t) vf_i0, (int64_t) max_idx))       \
        __CPROVER_loop_invariant(h == VF_HP(b1, (int64_t) i - 1, g_w))                             \
        __CPROVER_loop_invariant(VF_NOHIT_UPTO(VF_HP(b1, g_k, g_w), (int64_t) vf_i0, (int64_t) i,  \
                                               mask, trigger))                                     \
        __CPROVER_decreases((int64_t) max_idx - (int64_t) i)

/* ------------------------------------------------------------------------------------------ */
uint32_t g_t;   /* witness table index */

#define VF_C_RH_INIT                                                                               \
        __CPROVER_requires(__CPROVER_w_ok(state, sizeof(*state)) && g_t < 256u && w != 0u)         \
        __CPROVER_assigns(w <= 48u : state->table1, state->table2, state->w)                      \
        /* a refused window leaves the state untouched (empty frame above) */                     \
        __CPROVER_ensures(w > 48u ==> __CPROVER_return_value == -1)                                \
        __CPROVER_ensures(w <= 48u ==> (__CPROVER_return_value == 0 && state->w == w &&            \
                          state->table1[g_t] == vf_T1[g_t] &&                                      \
                          state->table2[g_t] == VF_ROL64(vf_T1[g_t], w)))

#define VF_C_RH_RESET                                                                              \
        __CPROVER_requires(state->w == g_w && g_w >= 1 && g_w <= 48 && g_j < g_w)                  \
        __CPROVER_assigns(state->hash, state->history)                                             \
        __CPROVER_ensures(state->hash == VF_HP(init_bytes, (int64_t) g_w - 1, g_w))                \
        __CPROVER_ensures(state->history[g_j] == init_bytes[g_j])

/* the dispatched scan (NASM _00/_04 or the C loop): ASSUMED to satisfy the contract proved for _base */
extern uint64_t
_rolling_hash2_run_until(uint32_t *idx, int max_idx, uint64_t *t1, uint64_t *t2, uint8_t *b1,
                         uint8_t *b2, uint64_t h, uint64_t mask, uint64_t trigger)
VF_C_RUN_UNTIL
;

#define VF_RET_HIT 0
#define VF_RET_MAX 1
/* _rolling_hash2_run: stream = history on entry (positions -w..-1) followed by the buffer */
#define VF_C_RH_RUN                                                                                \
        __CPROVER_requires(state->w == g_w && g_w >= 1 && g_w <= 48 && g_j < g_w)                  \
        __CPROVER_requires(buffer == g_buf && buffer_length == g_len)                              \
        __CPROVER_requires((trigger & ~mask) == 0)                                                 \
        __CPROVER_requires(state->hash == VF_H(buffer, -1, g_w)) /* hash of the last w bytes */    \
        __CPROVER_assigns(state->hash, state->history, *offset)                                    \
        __CPROVER_ensures(__CPROVER_return_value == VF_RET_HIT || __CPROVER_return_value == VF_RET_MAX) \
        __CPROVER_ensures(*offset <= buffer_length)                                                \
        __CPROVER_ensures(__CPROVER_return_value == VF_RET_MAX ==> *offset == buffer_length)       \
        /* a hit is reported exactly at the first position whose window hash matches */            \
        __CPROVER_ensures(__CPROVER_return_value == VF_RET_HIT ==>                                 \
                          (*offset >= 1 && ((VF_H(buffer, (int64_t) *offset - 1, g_w) & mask) == trigger))) \
        __CPROVER_ensures(!(0 <= g_k && g_k < (int64_t) *offset - (__CPROVER_return_value == VF_RET_HIT ? 1 : 0)) || \
                          ((VF_H(buffer, g_k, g_w) & mask) != trigger))                            \
        /* state for the next call: hash and history of the last w stream bytes */                 \
        __CPROVER_ensures(state->hash == VF_H(buffer, (int64_t) *offset - 1, g_w))                 \
        __CPROVER_ensures(state->history[g_j] == VF_BYTE(buffer, (int64_t) *offset - (int64_t) g_w + g_j, g_w))

/* ------------------------------------------------------------------------------------------ */
/* libc copies with run-time length (<= 48) into the history: witness-address contracts.
 * g_dw is the fixed address &state->history[g_j] (assigned by the harness). */
uint8_t *g_dw;
uint8_t *g_histbase; /* == state->history */
#define VF_DW_IN(dst, n)                                                                           \
        (__CPROVER_same_object(g_dw, (dst)) && __CPROVER_POINTER_OFFSET(g_dw) >= __CPROVER_POINTER_OFFSET(dst) && \
         __CPROVER_POINTER_OFFSET(g_dw) < __CPROVER_POINTER_OFFSET(dst) + (n))
#define VF_DW_OFF(dst) (__CPROVER_POINTER_OFFSET(g_dw) - __CPROVER_POINTER_OFFSET(dst))
void *
memcpy(void *dst, const void *src, size_t n)
        /* clang-format off */
__CPROVER_requires(n <= 48 && __CPROVER_r_ok(src, n) && __CPROVER_w_ok(dst, n))
__CPROVER_requires(!__CPROVER_same_object(dst, src)) /* every memcpy of this file copies between different objects */
__CPROVER_assigns(__CPROVER_object_upto(dst, n))
__CPROVER_ensures(__CPROVER_return_value == dst)
__CPROVER_ensures(VF_DW_IN(dst, n) ==> *g_dw == ((const uint8_t *) src)[VF_DW_OFF(dst)])
        /* clang-format on */
        ;
/* the only memmove of this file shifts the history down: src = history + i, dst = history */
void *
memmove(void *dst, const void *src, size_t n)
        /* clang-format off */
__CPROVER_requires(n <= 48 && __CPROVER_r_ok(src, n) && __CPROVER_w_ok(dst, n))
__CPROVER_requires(dst == (void *) g_histbase && __CPROVER_same_object(src, g_histbase) &&
                   __CPROVER_POINTER_OFFSET(src) - __CPROVER_POINTER_OFFSET(g_histbase) + n <= 48)
__CPROVER_assigns(__CPROVER_object_upto(dst, n))
__CPROVER_ensures(__CPROVER_return_value == dst)
/* g_hist0 is the history on entry of _rolling_hash2_run, which does not write it before this call */
__CPROVER_ensures(VF_DW_IN(dst, n) ==>
                  *g_dw == g_hist0[(__CPROVER_POINTER_OFFSET(src) - __CPROVER_POINTER_OFFSET(g_histbase)) + VF_DW_OFF(dst)])
        /* clang-format on */
        ;
