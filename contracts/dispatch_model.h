/* dispatch_model.h — machine model for the translated *_dispatch_init routines (C12, C18).
 *
 * The CPUID leaf 1 / leaf 7 words and XCR0 are SYMBOLIC and fixed for one run; the
 * consistency constraints assumed on them (VF_CPU_CONSISTENT) are the architectural
 * ones only, printed in the evidence, so that masked / virtualised feature sets stay
 * inside the domain.
 */
#include <stdint.h>

typedef struct {
        uint64_t rax, rbx, rcx, rdx, rsi, rdi, r8, r9, r10, r11;
} vf_regs_t;

uint32_t g_c1a, g_c1c, g_c7b, g_c7c, g_c7d, g_xcr0; /* symbolic machine */
int g_ud;            /* an instruction that is #UD on this machine was executed (xgetbv w/o OSXSAVE) */
unsigned g_stores;   /* stores to <entry>_dispatched */
uint64_t g_chosen;   /* value stored */
int g_unbalanced;

static uint32_t vf_nd32(void) { uint32_t x; return x; } /* uninitialised = nondeterministic */
static uint64_t vf_nd64(void) { uint64_t x; return x; }

static vf_regs_t vf_entry_regs(void)
{
        vf_regs_t r;
        r.rax = vf_nd64(); r.rbx = vf_nd64(); r.rcx = vf_nd64(); r.rdx = vf_nd64(); r.rsi = vf_nd64();
        r.rdi = vf_nd64(); r.r8 = vf_nd64(); r.r9 = vf_nd64(); r.r10 = vf_nd64(); r.r11 = vf_nd64();
        return r;
}

static void vf_cpuid(vf_regs_t *R)
{
        uint32_t leaf = (uint32_t) R->rax, sub = (uint32_t) R->rcx;
        if (leaf == 1) {
                R->rax = g_c1a; R->rbx = vf_nd32(); R->rcx = g_c1c; R->rdx = vf_nd32();
        } else if (leaf == 7 && sub == 0) {
                R->rax = vf_nd32(); R->rbx = g_c7b; R->rcx = g_c7c; R->rdx = g_c7d;
        } else {
                R->rax = vf_nd32(); R->rbx = vf_nd32(); R->rcx = vf_nd32(); R->rdx = vf_nd32();
        }
}

#define VF_OSXSAVE (1u << 27)
static void vf_xgetbv(vf_regs_t *R)
{
        if (!(g_c1c & VF_OSXSAVE))
                g_ud = 1; /* XGETBV with CR4.OSXSAVE clear raises #UD */
        if ((uint32_t) R->rcx == 0) {
                R->rax = g_xcr0; R->rdx = 0;
        } else {
                R->rax = vf_nd32(); R->rdx = vf_nd32();
        }
}
static void vf_ret(int sp, vf_regs_t *R) { (void) R; if (sp != 0) g_unbalanced = 1; }
static void vf_pause(void) {}
#define VF_SPIN_CHECK(c) ((void) 0)

/* ISA levels an implementation family needs */
enum { VF_BASE, VF_SSE, VF_AVX, VF_AVX2, VF_AVX512, VF_VAES512, VF_SSE_NI, VF_AVX512_NI };

#define VF_G1 ((1u << 16) | (1u << 17) | (1u << 28) | (1u << 30) | (1u << 31)) /* F DQ CD BW VL */
#define VF_HAVE_SSE    ((g_c1c & (1u << 19)) != 0)
#define VF_HAVE_AVX    ((g_c1c & VF_OSXSAVE) && (g_c1c & (1u << 28)) && (g_xcr0 & 6u) == 6u)
#define VF_HAVE_AVX2   (VF_HAVE_AVX && (g_c7b & (1u << 5)))
#define VF_HAVE_AVX512 (VF_HAVE_AVX2 && (g_c7b & VF_G1) == VF_G1 && (g_xcr0 & 0xe0u) == 0xe0u)
#define VF_HAVE_VAES   (VF_HAVE_AVX512 && (g_c7c & (1u << 9)) && (g_c7c & (1u << 10))) /* VAES, VPCLMULQDQ */
#define VF_HAVE_SHA    ((g_c7b & (1u << 29)) != 0)

static int vf_have(int level)
{
        switch (level) {
        case VF_BASE: return 1;
        case VF_SSE: return VF_HAVE_SSE;
        case VF_AVX: return VF_HAVE_AVX;
        case VF_AVX2: return VF_HAVE_AVX2;
        case VF_AVX512: return VF_HAVE_AVX512;
        case VF_VAES512: return VF_HAVE_VAES;
        case VF_SSE_NI: return VF_HAVE_SSE && VF_HAVE_SHA;
        case VF_AVX512_NI: return VF_HAVE_AVX512 && VF_HAVE_SHA;
        }
        return 0;
}

/* architectural consistency of the symbolic machine (kept as weak as the SDM allows) */
#define VF_CPU_CONSISTENT                                                                          \
        ((!(g_c1c & (1u << 20)) || (g_c1c & (1u << 19))) &&      /* SSE4.2 => SSE4.1 */              \
         (!(g_c7b & (1u << 5)) || (g_c1c & (1u << 28))) &&       /* AVX2 => AVX */                   \
         (!(g_c1c & (1u << 28)) || (g_c1c & (3u << 19)) == (3u << 19)) && /* AVX => SSE4.1, SSE4.2 */ \
         (!(g_c7b & (1u << 16)) || (g_c7b & (1u << 5))) &&       /* AVX512F => AVX2 */               \
         (!(g_c7b & (VF_G1 & ~(1u << 16))) || (g_c7b & (1u << 16))) && /* DQ,CD,BW,VL => F */        \
         (!(g_c1c & (1u << 28)) || (g_c1c & (1u << 26))) &&      /* AVX => XSAVE */                  \
         (!(g_c1c & VF_OSXSAVE) || (g_c1c & (1u << 26))) &&      /* OSXSAVE => XSAVE */              \
         (g_xcr0 & 1u) &&                                         /* XCR0.x87 always 1 */            \
         (!(g_xcr0 & 4u) || (g_xcr0 & 2u)) &&                     /* XCR0.YMM => XCR0.SSE */         \
         ((g_xcr0 & 0xe0u) == 0 || (g_xcr0 & 0xe0u) == 0xe0u) &&  /* opmask/ZMM state all or none */ \
         (!(g_xcr0 & 0xe0u) || (g_xcr0 & 6u) == 6u) &&            /* AVX-512 state => AVX state */   \
         (!(g_xcr0 & 4u) || (g_c1c & (1u << 28))) &&              /* OS enables only what exists */  \
         (!(g_xcr0 & 0xe0u) || (g_c7b & (1u << 16))))
