/* compress_switch.h - generated once (see DESIGN.md 2.9): a switch over the round counter turns ONE assertion inside an
 * unwound loop into one syntactic assertion (= one CBMC property, one solver run) per round. */
#define VF_RSWITCH(cond) \
        switch (vfS.t - 1) { \
        case 0: VF_A_(cond, "compress: round 0 equals the standard's"); break; \
        case 1: VF_A_(cond, "compress: round 1 equals the standard's"); break; \
        case 2: VF_A_(cond, "compress: round 2 equals the standard's"); break; \
        case 3: VF_A_(cond, "compress: round 3 equals the standard's"); break; \
        case 4: VF_A_(cond, "compress: round 4 equals the standard's"); break; \
        case 5: VF_A_(cond, "compress: round 5 equals the standard's"); break; \
        case 6: VF_A_(cond, "compress: round 6 equals the standard's"); break; \
        case 7: VF_A_(cond, "compress: round 7 equals the standard's"); break; \
        case 8: VF_A_(cond, "compress: round 8 equals the standard's"); break; \
        case 9: VF_A_(cond, "compress: round 9 equals the standard's"); break; \
        case 10: VF_A_(cond, "compress: round 10 equals the standard's"); break; \
        case 11: VF_A_(cond, "compress: round 11 equals the standard's"); break; \
        case 12: VF_A_(cond, "compress: round 12 equals the standard's"); break; \
        case 13: VF_A_(cond, "compress: round 13 equals the standard's"); break; \
        case 14: VF_A_(cond, "compress: round 14 equals the standard's"); break; \
        case 15: VF_A_(cond, "compress: round 15 equals the standard's"); break; \
        case 16: VF_A_(cond, "compress: round 16 equals the standard's"); break; \
        case 17: VF_A_(cond, "compress: round 17 equals the standard's"); break; \
        case 18: VF_A_(cond, "compress: round 18 equals the standard's"); break; \
        case 19: VF_A_(cond, "compress: round 19 equals the standard's"); break; \
        case 20: VF_A_(cond, "compress: round 20 equals the standard's"); break; \
        case 21: VF_A_(cond, "compress: round 21 equals the standard's"); break; \
        case 22: VF_A_(cond, "compress: round 22 equals the standard's"); break; \
        case 23: VF_A_(cond, "compress: round 23 equals the standard's"); break; \
        case 24: VF_A_(cond, "compress: round 24 equals the standard's"); break; \
        case 25: VF_A_(cond, "compress: round 25 equals the standard's"); break; \
        case 26: VF_A_(cond, "compress: round 26 equals the standard's"); break; \
        case 27: VF_A_(cond, "compress: round 27 equals the standard's"); break; \
        case 28: VF_A_(cond, "compress: round 28 equals the standard's"); break; \
        case 29: VF_A_(cond, "compress: round 29 equals the standard's"); break; \
        case 30: VF_A_(cond, "compress: round 30 equals the standard's"); break; \
        case 31: VF_A_(cond, "compress: round 31 equals the standard's"); break; \
        case 32: VF_A_(cond, "compress: round 32 equals the standard's"); break; \
        case 33: VF_A_(cond, "compress: round 33 equals the standard's"); break; \
        case 34: VF_A_(cond, "compress: round 34 equals the standard's"); break; \
        case 35: VF_A_(cond, "compress: round 35 equals the standard's"); break; \
        case 36: VF_A_(cond, "compress: round 36 equals the standard's"); break; \
        case 37: VF_A_(cond, "compress: round 37 equals the standard's"); break; \
        case 38: VF_A_(cond, "compress: round 38 equals the standard's"); break; \
        case 39: VF_A_(cond, "compress: round 39 equals the standard's"); break; \
        case 40: VF_A_(cond, "compress: round 40 equals the standard's"); break; \
        case 41: VF_A_(cond, "compress: round 41 equals the standard's"); break; \
        case 42: VF_A_(cond, "compress: round 42 equals the standard's"); break; \
        case 43: VF_A_(cond, "compress: round 43 equals the standard's"); break; \
        case 44: VF_A_(cond, "compress: round 44 equals the standard's"); break; \
        case 45: VF_A_(cond, "compress: round 45 equals the standard's"); break; \
        case 46: VF_A_(cond, "compress: round 46 equals the standard's"); break; \
        case 47: VF_A_(cond, "compress: round 47 equals the standard's"); break; \
        case 48: VF_A_(cond, "compress: round 48 equals the standard's"); break; \
        case 49: VF_A_(cond, "compress: round 49 equals the standard's"); break; \
        case 50: VF_A_(cond, "compress: round 50 equals the standard's"); break; \
        case 51: VF_A_(cond, "compress: round 51 equals the standard's"); break; \
        case 52: VF_A_(cond, "compress: round 52 equals the standard's"); break; \
        case 53: VF_A_(cond, "compress: round 53 equals the standard's"); break; \
        case 54: VF_A_(cond, "compress: round 54 equals the standard's"); break; \
        case 55: VF_A_(cond, "compress: round 55 equals the standard's"); break; \
        case 56: VF_A_(cond, "compress: round 56 equals the standard's"); break; \
        case 57: VF_A_(cond, "compress: round 57 equals the standard's"); break; \
        case 58: VF_A_(cond, "compress: round 58 equals the standard's"); break; \
        case 59: VF_A_(cond, "compress: round 59 equals the standard's"); break; \
        case 60: VF_A_(cond, "compress: round 60 equals the standard's"); break; \
        case 61: VF_A_(cond, "compress: round 61 equals the standard's"); break; \
        case 62: VF_A_(cond, "compress: round 62 equals the standard's"); break; \
        case 63: VF_A_(cond, "compress: round 63 equals the standard's"); break; \
        default: VF_A_(0, "compress: round counter out of range"); \
        }
#define VF_WSWITCH(cond) \
        switch (vfS.t - 1) { \
        case 0: VF_A_(cond, "compress: schedule word of round 0 equals the standard's"); break; \
        case 1: VF_A_(cond, "compress: schedule word of round 1 equals the standard's"); break; \
        case 2: VF_A_(cond, "compress: schedule word of round 2 equals the standard's"); break; \
        case 3: VF_A_(cond, "compress: schedule word of round 3 equals the standard's"); break; \
        case 4: VF_A_(cond, "compress: schedule word of round 4 equals the standard's"); break; \
        case 5: VF_A_(cond, "compress: schedule word of round 5 equals the standard's"); break; \
        case 6: VF_A_(cond, "compress: schedule word of round 6 equals the standard's"); break; \
        case 7: VF_A_(cond, "compress: schedule word of round 7 equals the standard's"); break; \
        case 8: VF_A_(cond, "compress: schedule word of round 8 equals the standard's"); break; \
        case 9: VF_A_(cond, "compress: schedule word of round 9 equals the standard's"); break; \
        case 10: VF_A_(cond, "compress: schedule word of round 10 equals the standard's"); break; \
        case 11: VF_A_(cond, "compress: schedule word of round 11 equals the standard's"); break; \
        case 12: VF_A_(cond, "compress: schedule word of round 12 equals the standard's"); break; \
        case 13: VF_A_(cond, "compress: schedule word of round 13 equals the standard's"); break; \
        case 14: VF_A_(cond, "compress: schedule word of round 14 equals the standard's"); break; \
        case 15: VF_A_(cond, "compress: schedule word of round 15 equals the standard's"); break; \
        case 16: VF_A_(cond, "compress: schedule word of round 16 equals the standard's"); break; \
        case 17: VF_A_(cond, "compress: schedule word of round 17 equals the standard's"); break; \
        case 18: VF_A_(cond, "compress: schedule word of round 18 equals the standard's"); break; \
        case 19: VF_A_(cond, "compress: schedule word of round 19 equals the standard's"); break; \
        case 20: VF_A_(cond, "compress: schedule word of round 20 equals the standard's"); break; \
        case 21: VF_A_(cond, "compress: schedule word of round 21 equals the standard's"); break; \
        case 22: VF_A_(cond, "compress: schedule word of round 22 equals the standard's"); break; \
        case 23: VF_A_(cond, "compress: schedule word of round 23 equals the standard's"); break; \
        case 24: VF_A_(cond, "compress: schedule word of round 24 equals the standard's"); break; \
        case 25: VF_A_(cond, "compress: schedule word of round 25 equals the standard's"); break; \
        case 26: VF_A_(cond, "compress: schedule word of round 26 equals the standard's"); break; \
        case 27: VF_A_(cond, "compress: schedule word of round 27 equals the standard's"); break; \
        case 28: VF_A_(cond, "compress: schedule word of round 28 equals the standard's"); break; \
        case 29: VF_A_(cond, "compress: schedule word of round 29 equals the standard's"); break; \
        case 30: VF_A_(cond, "compress: schedule word of round 30 equals the standard's"); break; \
        case 31: VF_A_(cond, "compress: schedule word of round 31 equals the standard's"); break; \
        case 32: VF_A_(cond, "compress: schedule word of round 32 equals the standard's"); break; \
        case 33: VF_A_(cond, "compress: schedule word of round 33 equals the standard's"); break; \
        case 34: VF_A_(cond, "compress: schedule word of round 34 equals the standard's"); break; \
        case 35: VF_A_(cond, "compress: schedule word of round 35 equals the standard's"); break; \
        case 36: VF_A_(cond, "compress: schedule word of round 36 equals the standard's"); break; \
        case 37: VF_A_(cond, "compress: schedule word of round 37 equals the standard's"); break; \
        case 38: VF_A_(cond, "compress: schedule word of round 38 equals the standard's"); break; \
        case 39: VF_A_(cond, "compress: schedule word of round 39 equals the standard's"); break; \
        case 40: VF_A_(cond, "compress: schedule word of round 40 equals the standard's"); break; \
        case 41: VF_A_(cond, "compress: schedule word of round 41 equals the standard's"); break; \
        case 42: VF_A_(cond, "compress: schedule word of round 42 equals the standard's"); break; \
        case 43: VF_A_(cond, "compress: schedule word of round 43 equals the standard's"); break; \
        case 44: VF_A_(cond, "compress: schedule word of round 44 equals the standard's"); break; \
        case 45: VF_A_(cond, "compress: schedule word of round 45 equals the standard's"); break; \
        case 46: VF_A_(cond, "compress: schedule word of round 46 equals the standard's"); break; \
        case 47: VF_A_(cond, "compress: schedule word of round 47 equals the standard's"); break; \
        case 48: VF_A_(cond, "compress: schedule word of round 48 equals the standard's"); break; \
        case 49: VF_A_(cond, "compress: schedule word of round 49 equals the standard's"); break; \
        case 50: VF_A_(cond, "compress: schedule word of round 50 equals the standard's"); break; \
        case 51: VF_A_(cond, "compress: schedule word of round 51 equals the standard's"); break; \
        case 52: VF_A_(cond, "compress: schedule word of round 52 equals the standard's"); break; \
        case 53: VF_A_(cond, "compress: schedule word of round 53 equals the standard's"); break; \
        case 54: VF_A_(cond, "compress: schedule word of round 54 equals the standard's"); break; \
        case 55: VF_A_(cond, "compress: schedule word of round 55 equals the standard's"); break; \
        case 56: VF_A_(cond, "compress: schedule word of round 56 equals the standard's"); break; \
        case 57: VF_A_(cond, "compress: schedule word of round 57 equals the standard's"); break; \
        case 58: VF_A_(cond, "compress: schedule word of round 58 equals the standard's"); break; \
        case 59: VF_A_(cond, "compress: schedule word of round 59 equals the standard's"); break; \
        case 60: VF_A_(cond, "compress: schedule word of round 60 equals the standard's"); break; \
        case 61: VF_A_(cond, "compress: schedule word of round 61 equals the standard's"); break; \
        case 62: VF_A_(cond, "compress: schedule word of round 62 equals the standard's"); break; \
        case 63: VF_A_(cond, "compress: schedule word of round 63 equals the standard's"); break; \
        default: VF_A_(0, "compress: schedule word of round counter out of range"); \
        }
#define VF_QSWITCH(cond) \
        switch (vq) { \
        case 0: VF_A_(cond, "compress: schedule array word 0 equals the standard's"); break; \
        case 1: VF_A_(cond, "compress: schedule array word 1 equals the standard's"); break; \
        case 2: VF_A_(cond, "compress: schedule array word 2 equals the standard's"); break; \
        case 3: VF_A_(cond, "compress: schedule array word 3 equals the standard's"); break; \
        case 4: VF_A_(cond, "compress: schedule array word 4 equals the standard's"); break; \
        case 5: VF_A_(cond, "compress: schedule array word 5 equals the standard's"); break; \
        case 6: VF_A_(cond, "compress: schedule array word 6 equals the standard's"); break; \
        case 7: VF_A_(cond, "compress: schedule array word 7 equals the standard's"); break; \
        case 8: VF_A_(cond, "compress: schedule array word 8 equals the standard's"); break; \
        case 9: VF_A_(cond, "compress: schedule array word 9 equals the standard's"); break; \
        case 10: VF_A_(cond, "compress: schedule array word 10 equals the standard's"); break; \
        case 11: VF_A_(cond, "compress: schedule array word 11 equals the standard's"); break; \
        case 12: VF_A_(cond, "compress: schedule array word 12 equals the standard's"); break; \
        case 13: VF_A_(cond, "compress: schedule array word 13 equals the standard's"); break; \
        case 14: VF_A_(cond, "compress: schedule array word 14 equals the standard's"); break; \
        case 15: VF_A_(cond, "compress: schedule array word 15 equals the standard's"); break; \
        case 16: VF_A_(cond, "compress: schedule array word 16 equals the standard's"); break; \
        case 17: VF_A_(cond, "compress: schedule array word 17 equals the standard's"); break; \
        case 18: VF_A_(cond, "compress: schedule array word 18 equals the standard's"); break; \
        case 19: VF_A_(cond, "compress: schedule array word 19 equals the standard's"); break; \
        case 20: VF_A_(cond, "compress: schedule array word 20 equals the standard's"); break; \
        case 21: VF_A_(cond, "compress: schedule array word 21 equals the standard's"); break; \
        case 22: VF_A_(cond, "compress: schedule array word 22 equals the standard's"); break; \
        case 23: VF_A_(cond, "compress: schedule array word 23 equals the standard's"); break; \
        case 24: VF_A_(cond, "compress: schedule array word 24 equals the standard's"); break; \
        case 25: VF_A_(cond, "compress: schedule array word 25 equals the standard's"); break; \
        case 26: VF_A_(cond, "compress: schedule array word 26 equals the standard's"); break; \
        case 27: VF_A_(cond, "compress: schedule array word 27 equals the standard's"); break; \
        case 28: VF_A_(cond, "compress: schedule array word 28 equals the standard's"); break; \
        case 29: VF_A_(cond, "compress: schedule array word 29 equals the standard's"); break; \
        case 30: VF_A_(cond, "compress: schedule array word 30 equals the standard's"); break; \
        case 31: VF_A_(cond, "compress: schedule array word 31 equals the standard's"); break; \
        case 32: VF_A_(cond, "compress: schedule array word 32 equals the standard's"); break; \
        case 33: VF_A_(cond, "compress: schedule array word 33 equals the standard's"); break; \
        case 34: VF_A_(cond, "compress: schedule array word 34 equals the standard's"); break; \
        case 35: VF_A_(cond, "compress: schedule array word 35 equals the standard's"); break; \
        case 36: VF_A_(cond, "compress: schedule array word 36 equals the standard's"); break; \
        case 37: VF_A_(cond, "compress: schedule array word 37 equals the standard's"); break; \
        case 38: VF_A_(cond, "compress: schedule array word 38 equals the standard's"); break; \
        case 39: VF_A_(cond, "compress: schedule array word 39 equals the standard's"); break; \
        case 40: VF_A_(cond, "compress: schedule array word 40 equals the standard's"); break; \
        case 41: VF_A_(cond, "compress: schedule array word 41 equals the standard's"); break; \
        case 42: VF_A_(cond, "compress: schedule array word 42 equals the standard's"); break; \
        case 43: VF_A_(cond, "compress: schedule array word 43 equals the standard's"); break; \
        case 44: VF_A_(cond, "compress: schedule array word 44 equals the standard's"); break; \
        case 45: VF_A_(cond, "compress: schedule array word 45 equals the standard's"); break; \
        case 46: VF_A_(cond, "compress: schedule array word 46 equals the standard's"); break; \
        case 47: VF_A_(cond, "compress: schedule array word 47 equals the standard's"); break; \
        case 48: VF_A_(cond, "compress: schedule array word 48 equals the standard's"); break; \
        case 49: VF_A_(cond, "compress: schedule array word 49 equals the standard's"); break; \
        case 50: VF_A_(cond, "compress: schedule array word 50 equals the standard's"); break; \
        case 51: VF_A_(cond, "compress: schedule array word 51 equals the standard's"); break; \
        case 52: VF_A_(cond, "compress: schedule array word 52 equals the standard's"); break; \
        case 53: VF_A_(cond, "compress: schedule array word 53 equals the standard's"); break; \
        case 54: VF_A_(cond, "compress: schedule array word 54 equals the standard's"); break; \
        case 55: VF_A_(cond, "compress: schedule array word 55 equals the standard's"); break; \
        case 56: VF_A_(cond, "compress: schedule array word 56 equals the standard's"); break; \
        case 57: VF_A_(cond, "compress: schedule array word 57 equals the standard's"); break; \
        case 58: VF_A_(cond, "compress: schedule array word 58 equals the standard's"); break; \
        case 59: VF_A_(cond, "compress: schedule array word 59 equals the standard's"); break; \
        case 60: VF_A_(cond, "compress: schedule array word 60 equals the standard's"); break; \
        case 61: VF_A_(cond, "compress: schedule array word 61 equals the standard's"); break; \
        case 62: VF_A_(cond, "compress: schedule array word 62 equals the standard's"); break; \
        case 63: VF_A_(cond, "compress: schedule array word 63 equals the standard's"); break; \
        case 64: VF_A_(cond, "compress: schedule array word 64 equals the standard's"); break; \
        case 65: VF_A_(cond, "compress: schedule array word 65 equals the standard's"); break; \
        case 66: VF_A_(cond, "compress: schedule array word 66 equals the standard's"); break; \
        case 67: VF_A_(cond, "compress: schedule array word 67 equals the standard's"); break; \
        default: VF_A_(0, "compress: schedule array word counter out of range"); \
        }
#define VF_QBSWITCH(cond) \
        switch (vq) { \
        case 0: VF_A_(cond, "compress: schedule array word W' 0 equals the standard's"); break; \
        case 1: VF_A_(cond, "compress: schedule array word W' 1 equals the standard's"); break; \
        case 2: VF_A_(cond, "compress: schedule array word W' 2 equals the standard's"); break; \
        case 3: VF_A_(cond, "compress: schedule array word W' 3 equals the standard's"); break; \
        case 4: VF_A_(cond, "compress: schedule array word W' 4 equals the standard's"); break; \
        case 5: VF_A_(cond, "compress: schedule array word W' 5 equals the standard's"); break; \
        case 6: VF_A_(cond, "compress: schedule array word W' 6 equals the standard's"); break; \
        case 7: VF_A_(cond, "compress: schedule array word W' 7 equals the standard's"); break; \
        case 8: VF_A_(cond, "compress: schedule array word W' 8 equals the standard's"); break; \
        case 9: VF_A_(cond, "compress: schedule array word W' 9 equals the standard's"); break; \
        case 10: VF_A_(cond, "compress: schedule array word W' 10 equals the standard's"); break; \
        case 11: VF_A_(cond, "compress: schedule array word W' 11 equals the standard's"); break; \
        case 12: VF_A_(cond, "compress: schedule array word W' 12 equals the standard's"); break; \
        case 13: VF_A_(cond, "compress: schedule array word W' 13 equals the standard's"); break; \
        case 14: VF_A_(cond, "compress: schedule array word W' 14 equals the standard's"); break; \
        case 15: VF_A_(cond, "compress: schedule array word W' 15 equals the standard's"); break; \
        case 16: VF_A_(cond, "compress: schedule array word W' 16 equals the standard's"); break; \
        case 17: VF_A_(cond, "compress: schedule array word W' 17 equals the standard's"); break; \
        case 18: VF_A_(cond, "compress: schedule array word W' 18 equals the standard's"); break; \
        case 19: VF_A_(cond, "compress: schedule array word W' 19 equals the standard's"); break; \
        case 20: VF_A_(cond, "compress: schedule array word W' 20 equals the standard's"); break; \
        case 21: VF_A_(cond, "compress: schedule array word W' 21 equals the standard's"); break; \
        case 22: VF_A_(cond, "compress: schedule array word W' 22 equals the standard's"); break; \
        case 23: VF_A_(cond, "compress: schedule array word W' 23 equals the standard's"); break; \
        case 24: VF_A_(cond, "compress: schedule array word W' 24 equals the standard's"); break; \
        case 25: VF_A_(cond, "compress: schedule array word W' 25 equals the standard's"); break; \
        case 26: VF_A_(cond, "compress: schedule array word W' 26 equals the standard's"); break; \
        case 27: VF_A_(cond, "compress: schedule array word W' 27 equals the standard's"); break; \
        case 28: VF_A_(cond, "compress: schedule array word W' 28 equals the standard's"); break; \
        case 29: VF_A_(cond, "compress: schedule array word W' 29 equals the standard's"); break; \
        case 30: VF_A_(cond, "compress: schedule array word W' 30 equals the standard's"); break; \
        case 31: VF_A_(cond, "compress: schedule array word W' 31 equals the standard's"); break; \
        case 32: VF_A_(cond, "compress: schedule array word W' 32 equals the standard's"); break; \
        case 33: VF_A_(cond, "compress: schedule array word W' 33 equals the standard's"); break; \
        case 34: VF_A_(cond, "compress: schedule array word W' 34 equals the standard's"); break; \
        case 35: VF_A_(cond, "compress: schedule array word W' 35 equals the standard's"); break; \
        case 36: VF_A_(cond, "compress: schedule array word W' 36 equals the standard's"); break; \
        case 37: VF_A_(cond, "compress: schedule array word W' 37 equals the standard's"); break; \
        case 38: VF_A_(cond, "compress: schedule array word W' 38 equals the standard's"); break; \
        case 39: VF_A_(cond, "compress: schedule array word W' 39 equals the standard's"); break; \
        case 40: VF_A_(cond, "compress: schedule array word W' 40 equals the standard's"); break; \
        case 41: VF_A_(cond, "compress: schedule array word W' 41 equals the standard's"); break; \
        case 42: VF_A_(cond, "compress: schedule array word W' 42 equals the standard's"); break; \
        case 43: VF_A_(cond, "compress: schedule array word W' 43 equals the standard's"); break; \
        case 44: VF_A_(cond, "compress: schedule array word W' 44 equals the standard's"); break; \
        case 45: VF_A_(cond, "compress: schedule array word W' 45 equals the standard's"); break; \
        case 46: VF_A_(cond, "compress: schedule array word W' 46 equals the standard's"); break; \
        case 47: VF_A_(cond, "compress: schedule array word W' 47 equals the standard's"); break; \
        case 48: VF_A_(cond, "compress: schedule array word W' 48 equals the standard's"); break; \
        case 49: VF_A_(cond, "compress: schedule array word W' 49 equals the standard's"); break; \
        case 50: VF_A_(cond, "compress: schedule array word W' 50 equals the standard's"); break; \
        case 51: VF_A_(cond, "compress: schedule array word W' 51 equals the standard's"); break; \
        case 52: VF_A_(cond, "compress: schedule array word W' 52 equals the standard's"); break; \
        case 53: VF_A_(cond, "compress: schedule array word W' 53 equals the standard's"); break; \
        case 54: VF_A_(cond, "compress: schedule array word W' 54 equals the standard's"); break; \
        case 55: VF_A_(cond, "compress: schedule array word W' 55 equals the standard's"); break; \
        case 56: VF_A_(cond, "compress: schedule array word W' 56 equals the standard's"); break; \
        case 57: VF_A_(cond, "compress: schedule array word W' 57 equals the standard's"); break; \
        case 58: VF_A_(cond, "compress: schedule array word W' 58 equals the standard's"); break; \
        case 59: VF_A_(cond, "compress: schedule array word W' 59 equals the standard's"); break; \
        case 60: VF_A_(cond, "compress: schedule array word W' 60 equals the standard's"); break; \
        case 61: VF_A_(cond, "compress: schedule array word W' 61 equals the standard's"); break; \
        case 62: VF_A_(cond, "compress: schedule array word W' 62 equals the standard's"); break; \
        case 63: VF_A_(cond, "compress: schedule array word W' 63 equals the standard's"); break; \
        default: VF_A_(0, "compress: schedule array word W' counter out of range"); \
        }
