/* fips_model.h — rely/guarantee model of the FIPS self-test status word (C17).
 *
 * The status routines of fips/asm_self_tests.asm are translated instruction by instruction
 * (vf/asm2c.py); every access to the shared cell `self_test_status` goes through the functions
 * below, which first let the OTHER threads take any number of steps allowed by the protocol
 * (the rely) and then assert that OUR step is allowed by the protocol (the guarantee).
 *
 * Protocol (invariant VF_I):  status in {NOT_DONE=2, RUNNING=3, OK=0, FAIL=1};
 *   transitions 2 -> 3 only by a successful compare-and-swap (the winner gets the token),
 *   3 -> {0,1} only by the token holder, 0 and 1 are final;
 *   status == 3  <=>  somebody holds the token;  at most one holder.
 */
#include <stdint.h>
typedef struct {
        uint64_t rax, rbx, rcx, rdx, rsi, rdi, r8, r9, r10, r11;
} vf_regs_t;

uint32_t g_status;    /* the shared cell */
uint8_t g_mine;       /* this thread holds the token */
uint8_t g_other;      /* another thread holds the token */
uint64_t vf_arg_rdi;  /* first argument of the routine under proof */
uint64_t vf_out_rax;  /* its return value */
int g_unbalanced;

#define VF_I                                                                                       \
        (g_status <= 3u && g_mine <= 1 && g_other <= 1 && !(g_mine && g_other) &&                  \
         ((g_status == 3u) == (g_mine || g_other)))

static uint64_t vf_nd64(void) { uint64_t x; return x; }
static vf_regs_t vf_entry_regs(void)
{
        vf_regs_t r;
        r.rax = vf_nd64(); r.rbx = vf_nd64(); r.rcx = vf_nd64(); r.rdx = vf_nd64(); r.rsi = vf_nd64();
        r.rdi = vf_arg_rdi; r.r8 = vf_nd64(); r.r9 = vf_nd64(); r.r10 = vf_nd64(); r.r11 = vf_nd64();
        return r;
}
static void vf_ret(int sp, vf_regs_t *R) { vf_out_rax = R->rax; if (sp != 0) g_unbalanced = 1; }

/* rely: any finite number of steps of other threads, each allowed by the protocol */
static void vf_interfere(void)
{
        uint8_t k; /* nondeterministic: which steps happen */
        if (k & 1) {
                if (g_status == 2u && !g_mine && !g_other) { g_status = 3u; g_other = 1; } /* another thread wins the CAS */
        }
        if (k & 2) {
                if (g_status == 3u && g_other) { g_status = (k & 4) ? 0u : 1u; g_other = 0; } /* it publishes its verdict */
        }
}
static void vf_pause(void) {}

uint32_t g_last_load; /* value returned by the last load of the shared cell */
static uint32_t vf_load_self_test_status(void)
{
        vf_interfere();
        g_last_load = g_status;
        return g_status;
}
/* progress (a safety property that gives "nobody waits forever" under fairness): a waiter goes round
 * the wait loop again only if the value it just read was RUNNING - it never spins on a final verdict */
#define VF_SPIN_CHECK(cont) __CPROVER_assert(!(cont) || g_last_load == 3u, "wait loop continues only while RUNNING was observed")
static _Bool vf_cmpxchg_self_test_status(uint32_t *expected, uint32_t desired)
{
        vf_interfere();
        if (g_status == *expected) {
                __CPROVER_assert(*expected == 2u && desired == 3u && !g_mine,
                                 "guarantee: the only compare-and-swap is NOT_DONE -> RUNNING by a thread without the token");
                g_status = desired;
                g_mine = 1;
                return 1;
        }
        *expected = g_status;
        return 0;
}
static void vf_store_self_test_status(uint32_t v)
{
        vf_interfere();
        __CPROVER_assert(g_mine, "guarantee: only the token holder publishes a verdict");
        __CPROVER_assert(v == 0u || v == 1u, "guarantee: the published verdict is 0 (OK) or 1 (FAIL)");
        __CPROVER_assert(g_status == 3u, "guarantee: a verdict replaces RUNNING only");
        g_status = v;
        g_mine = 0;
}

/* spin loop of asm_check_self_tests_status: entered only after losing the CAS.  No decreases
 * clause: that the loop ends needs fairness and the winner finishing (liveness, not decided). */
#define VF_LOOP_check_status_loop                                                                  \
        __CPROVER_assigns(zf, g_status, g_other, g_last_load)                                                 \
        __CPROVER_loop_invariant(VF_I && !g_mine && g_status != 2u)
