/* mh_prelude.h - contracts for the multi-hash update / tail / finalize templates
 * (mh_sha1, mh_sha256 and, with VF_MUR, the stitched mh_sha1_murmur3_x64_128).
 *
 * Parameters (defined by vf/mh.py before inclusion):
 *   VF_MH_CTX_T     struct isal_mh_sha1_ctx / isal_mh_sha256_ctx / isal_mh_sha1_murmur3_x64_128_ctx
 *   VF_MH_W         digest words of the segment hash (5 / 8)
 *   VF_MH_INTERIM   name of the interim-digest member, VF_MH_DIGEST name of the final digest member
 *   VF_MH_OUTER     name of the outer hash (_sha1_for_mh_sha1 / sha256_for_mh_sha256)
 *   VF_MH_BLOCKFNS(X)  X-macro over the block functions of the TU
 *
 * Ghost model: one arbitrary stream position g_P with its byte g_byteP (witness); vfM.hashed =
 * bytes already handed to a block function (always a multiple of 1024).  Tape check at every
 * call of a block function: the bytes handed over are the stream bytes at their positions,
 * followed (tail only) by the SHA-style padding to a multiple of 1024 bytes with the 64-bit
 * big-endian bit length in the last 8 bytes.
 */
#ifndef VF_MH_PRELUDE_H
#define VF_MH_PRELUDE_H
#include <stdint.h>
#include <stddef.h>

#define VF_MHB 1024u

struct {
        uint64_t hashed;      /* stream bytes (incl. padding) already handed to the block function */
        uint32_t outer_calls; /* calls of the outer hash over the 16 segment digests */
        uint64_t mur_blocks;  /* stitched variant: 16-byte blocks already fed to murmur */
        uint8_t mur_tail_done;
} vfM;
VF_MH_CTX_T *g_ctx;
const uint8_t *g_buf; /* the caller's buffer of this update call (exact size g_len) */
uint32_t g_len;
uint64_t g_total;     /* stream length as of this call (update: after adding len) */
uint8_t g_padding;    /* 1 inside tail/finalize: padding may be handed over */
uint64_t g_P;         /* witness stream position */
uint8_t g_byteP;      /* THE stream byte at g_P */
uint64_t g_o;         /* offset of stream byte g_P inside g_buf, when it lies there */
uint64_t g_mk1, g_mk2; /* auxiliary witness offsets for memset (tied to g_P by the harness) */
uint32_t g_W;         /* witness digest word */

#define VF_OFF(p) ((uint64_t) __CPROVER_POINTER_OFFSET(p))
#define VF_MH_PADDED(t) ((((uint64_t) (t)) + 9u + (VF_MHB - 1)) & ~(uint64_t) (VF_MHB - 1))
#define VF_MH_LENBYTE(t, k) ((uint8_t) ((((uint64_t) (t)) << 3) >> ((8 * (7 - (k))) & 63)))
#define VF_MH_PADBYTE(t, pos)                                                                      \
        ((pos) == (t) ? (uint8_t) 0x80                                                             \
                      : ((pos) < VF_MH_PADDED(t) - 8 ? (uint8_t) 0                                 \
                                                     : VF_MH_LENBYTE(t, (pos) - (VF_MH_PADDED(t) - 8))))
#define VF_MH_EXPECT(pos) ((pos) < g_total ? g_byteP : VF_MH_PADBYTE(g_total, (pos)))
#define VF_MH_FRAME ((uint8_t *) ((((uint64_t) g_ctx->frame_buffer) + 0x3F) & ~(uint64_t) 0x3F))

/* partial buffer holds stream bytes [hashed, total) */
#define VF_MH_LAYOUT(total)                                                                        \
        (vfM.hashed == (((uint64_t) (total)) & ~(uint64_t) (VF_MHB - 1)) &&                        \
         (!(g_P >= vfM.hashed && g_P < (uint64_t) (total)) ||                                      \
          g_ctx->partial_block_buffer[g_P - vfM.hashed] == g_byteP))

/* ---- block functions (NASM for sse/avx/avx2/avx512, C for base): ASSUMED here ---------------- */
#define VF_MH_SRC_PARTIAL(in) ((in) == (const uint8_t *) g_ctx->partial_block_buffer)
#define VF_MH_SRC_USER(in, n)                                                                      \
        (__CPROVER_same_object((in), g_buf) && VF_OFF(in) + (uint64_t) (n) * VF_MHB <= g_len)
#define VF_MH_INBYTE(in, k)                                                                        \
        (VF_MH_SRC_PARTIAL(in) ? g_ctx->partial_block_buffer[(k)] : g_buf[VF_OFF(in) + (k)])
#define VF_MH_BLOCK_CONTRACT(NAME)                                                                 \
        void NAME(const uint8_t *input_data, uint32_t digests[VF_MH_W][16], uint8_t frame_buffer[VF_MHB], \
                  uint32_t num_blocks)                                                             \
        __CPROVER_requires(num_blocks >= 1)                                                        \
        __CPROVER_requires(VF_MH_SRC_PARTIAL(input_data) ? num_blocks == 1                         \
                                                         : VF_MH_SRC_USER(input_data, num_blocks)) \
        __CPROVER_requires((void *) digests == (void *) g_ctx->VF_MH_INTERIM)                      \
        __CPROVER_requires(__CPROVER_same_object(frame_buffer, g_ctx->frame_buffer) &&             \
                           VF_OFF(frame_buffer) >= VF_OFF(g_ctx->frame_buffer) &&                  \
                           VF_OFF(frame_buffer) + VF_MHB <= VF_OFF(g_ctx->frame_buffer) + sizeof(g_ctx->frame_buffer)) \
        /* nothing beyond the (padded) stream is hashed; padding only inside tail */              \
        __CPROVER_requires(vfM.hashed + (uint64_t) num_blocks * VF_MHB <=                          \
                           (g_padding ? VF_MH_PADDED(g_total) : g_total))                          \
        /* tape check */                                                                           \
        __CPROVER_requires(!(g_P >= vfM.hashed && g_P < vfM.hashed + (uint64_t) num_blocks * VF_MHB) || \
                           VF_MH_INBYTE(input_data, g_P - vfM.hashed) == VF_MH_EXPECT(g_P))        \
        VF_MUR_BLOCK_REQ                                                                           \
        /* writes the interim digests and the frame buffer, both inside the context object: the frame is   \
         * the whole object (cheap to havoc), what callers rely on afterwards is restated */       \
        __CPROVER_assigns(vfM, __CPROVER_object_whole(g_ctx))                                      \
        __CPROVER_ensures(g_ctx->total_length == __CPROVER_old(g_ctx->total_length))               \
        __CPROVER_ensures(vfM.hashed == __CPROVER_old(vfM.hashed) + (uint64_t) num_blocks * VF_MHB) \
        __CPROVER_ensures(vfM.outer_calls == __CPROVER_old(vfM.outer_calls) &&                     \
                          vfM.mur_tail_done == __CPROVER_old(vfM.mur_tail_done))                   \
        VF_MUR_BLOCK_ENS;

/* ---- libc copies with run-time length: witness contracts ------------------------------------
 * CBMC cannot havoc a slice of run-time length inside a 2 KiB buffer (measured: > 24 GB), so the
 * frame of both copies is the WHOLE partial buffer (constant size) and what they preserve /
 * write is stated for witness addresses: g_o (source offset of stream byte g_P in the caller's
 * buffer), g_dw (address of partial[g_P - hashed on entry], assigned by the harness) and the
 * auxiliary memset offsets g_mk1/g_mk2. */
uint8_t *g_dw;
#define VF_WIT_IN(o, buf, src, n)                                                                  \
        (__CPROVER_same_object((src), (buf)) && (o) >= VF_OFF(src) && (o) < VF_OFF(src) + (n))
#define VF_IN_PARTIAL(dst, n)                                                                      \
        (__CPROVER_same_object((dst), g_ctx->partial_block_buffer) &&                              \
         VF_OFF(dst) >= VF_OFF(g_ctx->partial_block_buffer) &&                                     \
         VF_OFF(dst) + (n) <= VF_OFF(g_ctx->partial_block_buffer) + sizeof(g_ctx->partial_block_buffer))
#define VF_DW_OUTSIDE(dst, n) (VF_OFF(g_dw) < VF_OFF(dst) || VF_OFF(g_dw) >= VF_OFF(dst) + (n))
void *
memcpy(void *dst, const void *src, size_t n)
        /* clang-format off */
__CPROVER_requires(n <= VF_MHB && __CPROVER_r_ok(src, n) && VF_IN_PARTIAL(dst, n))
__CPROVER_assigns(__CPROVER_object_whole(g_ctx))
__CPROVER_ensures(g_ctx->total_length == __CPROVER_old(g_ctx->total_length))
__CPROVER_ensures(__CPROVER_return_value == dst)
__CPROVER_ensures(VF_WIT_IN(g_o, g_buf, src, n) ==> ((const uint8_t *) dst)[g_o - VF_OFF(src)] == g_buf[g_o])
__CPROVER_ensures(VF_DW_OUTSIDE(dst, n) ==> *g_dw == __CPROVER_old(*g_dw))
        /* clang-format on */
        ;
void *
memset(void *dst, int c, size_t n)
        /* clang-format off */
__CPROVER_requires(n <= VF_MHB && VF_IN_PARTIAL(dst, n))
__CPROVER_assigns(__CPROVER_object_whole(g_ctx))
__CPROVER_ensures(g_ctx->total_length == __CPROVER_old(g_ctx->total_length))
__CPROVER_ensures(__CPROVER_return_value == dst)
__CPROVER_ensures(g_mk1 < n ==> ((const uint8_t *) dst)[g_mk1] == (uint8_t) c)
__CPROVER_ensures(g_mk2 < n ==> ((const uint8_t *) dst)[g_mk2] == (uint8_t) c)
__CPROVER_ensures(VF_DW_OUTSIDE(dst, n) ==> *g_dw == __CPROVER_old(*g_dw))
        /* clang-format on */
        ;

/* ---- outer hash over the 16 segment digests: ASSUMED here (standard SHA-1/SHA-256 of 320/512 bytes) */
#define VF_MH_OUTER_CONTRACT(RET, NAME)                                                            \
        RET NAME(const uint8_t *input_data, uint32_t *digest, const uint32_t len)                  \
        __CPROVER_requires((const void *) input_data == (const void *) g_ctx->VF_MH_INTERIM)       \
        __CPROVER_requires(len == 4u * VF_MH_W * 16u)                                              \
        __CPROVER_requires(__CPROVER_w_ok(digest, 4u * VF_MH_W))                                   \
        /* the whole padded stream has been hashed into the segments before they are combined */  \
        __CPROVER_requires(g_padding && vfM.hashed == VF_MH_PADDED(g_total))                       \
        __CPROVER_assigns(vfM, __CPROVER_object_upto(digest, 4u * VF_MH_W))                        \
        __CPROVER_ensures(vfM.outer_calls == __CPROVER_old(vfM.outer_calls) + 1 &&                 \
                          vfM.hashed == __CPROVER_old(vfM.hashed) &&                               \
                          vfM.mur_blocks == __CPROVER_old(vfM.mur_blocks) &&                       \
                          vfM.mur_tail_done == __CPROVER_old(vfM.mur_tail_done));

/* ---- the templates ---------------------------------------------------------------------------- */
#define VF_C_MH_UPDATE                                                                             \
        __CPROVER_requires(ctx == g_ctx && (const uint8_t *) buffer == g_buf && len == g_len)      \
        __CPROVER_requires(ctx->total_length < (1ull << 32) && ctx->total_length + (uint64_t) len < (1ull << 32) && !g_padding)        \
        __CPROVER_requires(g_total == ctx->total_length + (uint64_t) len)                          \
        __CPROVER_requires(VF_MH_LAYOUT(ctx->total_length))                                        \
        /* definition of the stream: the new buffer holds stream bytes [total, total+len) */       \
        __CPROVER_requires((g_P >= ctx->total_length && g_P < g_total) ==>                         \
                           (g_o == g_P - ctx->total_length && g_buf[g_o] == g_byteP))              \
        VF_MUR_UPDATE_REQ                                                                          \
        __CPROVER_assigns(__CPROVER_object_whole(ctx), vfM)                                        \
        __CPROVER_ensures(__CPROVER_return_value == 0)                                             \
        __CPROVER_ensures(ctx->total_length == __CPROVER_old(ctx->total_length) + (uint64_t) len)  \
        __CPROVER_ensures(VF_MH_LAYOUT(ctx->total_length))                                         \
        __CPROVER_ensures(vfM.outer_calls == __CPROVER_old(vfM.outer_calls))                       \
        VF_MUR_UPDATE_ENS

#define VF_C_MH_TAIL                                                                               \
        __CPROVER_requires(partial_buffer == g_ctx->partial_block_buffer)                          \
        __CPROVER_requires((void *) VF_MH_SEGS == (void *) g_ctx->VF_MH_INTERIM)                   \
        __CPROVER_requires(__CPROVER_same_object(frame_buffer, g_ctx->frame_buffer) &&             \
                           VF_OFF(frame_buffer) >= VF_OFF(g_ctx->frame_buffer) &&                  \
                           VF_OFF(frame_buffer) + VF_MHB <= VF_OFF(g_ctx->frame_buffer) + sizeof(g_ctx->frame_buffer)) \
        __CPROVER_requires(__CPROVER_w_ok(digests, 4u * VF_MH_W))                                  \
        __CPROVER_requires(g_total == (uint64_t) total_len && g_padding == 1)                      \
        __CPROVER_requires(VF_MH_LAYOUT(g_total))                                                  \
        __CPROVER_assigns(vfM, __CPROVER_object_whole(g_ctx), __CPROVER_object_upto(digests, 4u * VF_MH_W)) \
        __CPROVER_ensures(g_ctx->total_length == __CPROVER_old(g_ctx->total_length))               \
        __CPROVER_ensures(vfM.mur_blocks == __CPROVER_old(vfM.mur_blocks) &&                       \
                          vfM.mur_tail_done == __CPROVER_old(vfM.mur_tail_done))                   \
        VF_MUR_TAIL_KEEP                                                                           \
        __CPROVER_ensures(vfM.hashed == VF_MH_PADDED(g_total))                                     \
        __CPROVER_ensures(vfM.outer_calls == __CPROVER_old(vfM.outer_calls) + 1)

#define VF_C_MH_FINALIZE                                                                           \
        __CPROVER_requires(ctx == g_ctx && g_W < VF_MH_W)                                          \
        __CPROVER_requires(ctx->total_length < (1ull << 32) && g_total == ctx->total_length && g_padding == 1) \
        __CPROVER_requires(VF_MH_LAYOUT(g_total))                                                  \
        __CPROVER_requires(VF_MH_OUT == NULL || __CPROVER_w_ok(VF_MH_OUT, 4u * VF_MH_W))           \
        VF_MUR_FINALIZE_REQ                                                                        \
        __CPROVER_assigns(__CPROVER_object_whole(ctx), vfM)                                        \
        __CPROVER_assigns(VF_MH_OUT != NULL : __CPROVER_object_upto(VF_MH_OUT, 4u * VF_MH_W))      \
        VF_MUR_FINALIZE_ASSIGNS                                                                    \
        __CPROVER_ensures(__CPROVER_return_value == 0)                                             \
        __CPROVER_ensures(vfM.hashed == VF_MH_PADDED(g_total))                                     \
        __CPROVER_ensures(vfM.outer_calls == __CPROVER_old(vfM.outer_calls) + 1)                   \
        __CPROVER_ensures(VF_MH_OUT != NULL ==>                                                    \
                          ((const uint32_t *) VF_MH_OUT)[g_W] == ctx->VF_MH_DIGEST[g_W])           \
        VF_MUR_FINALIZE_ENS


#ifdef VF_MUR
/* ---- stitched mh_sha1 + murmur3_x64_128 (C10) -------------------------------------------------
 * murmur consumes the SAME byte stream in 16-byte blocks, in order: vfM.mur_blocks blocks so far.
 * During update it advances in lock step with the multi-hash (64 murmur blocks per 1024 bytes);
 * finalize feeds it the complete 16-byte blocks of the partial buffer, then the < 16-byte tail with
 * the total length, BEFORE the multi-hash tail overwrites the partial buffer with padding. */
#define VF_MUR_DIG ((void *) g_ctx->murmur3_x64_128_digest)
#define VF_MUR_BLOCK_REQ                                                                           \
        __CPROVER_requires((void *) murmur3_x64_128_digests == VF_MUR_DIG)                         \
        __CPROVER_requires(vfM.mur_blocks == vfM.hashed / 16u && !vfM.mur_tail_done && !g_padding)
#define VF_MUR_BLOCK_ENS                                                                           \
        __CPROVER_ensures(vfM.mur_blocks == __CPROVER_old(vfM.mur_blocks) + 64u * (uint64_t) num_blocks)
#define VF_MUR_UPDATE_REQ __CPROVER_requires(vfM.mur_blocks == vfM.hashed / 16u && !vfM.mur_tail_done)
#define VF_MUR_UPDATE_ENS __CPROVER_ensures(vfM.mur_blocks == vfM.hashed / 16u && !vfM.mur_tail_done)
#define VF_MUR_FINALIZE_REQ                                                                        \
        __CPROVER_requires(vfM.mur_blocks == vfM.hashed / 16u && !vfM.mur_tail_done)               \
        __CPROVER_requires(VF_MUR_OUT == NULL || __CPROVER_w_ok(VF_MUR_OUT, 16))
#define VF_MUR_FINALIZE_ASSIGNS __CPROVER_assigns(VF_MUR_OUT != NULL : __CPROVER_object_upto(VF_MUR_OUT, 16))
#define VF_MUR_FINALIZE_ENS                                                                        \
        __CPROVER_ensures(vfM.mur_tail_done && vfM.mur_blocks == g_total / 16u)                    \
        __CPROVER_ensures((VF_MUR_OUT != NULL && g_W < 4) ==>                                      \
                          ((const uint32_t *) VF_MUR_OUT)[g_W] == ctx->murmur3_x64_128_digest[g_W])
#define VF_MUR_OUT murmur3_x64_128_digest

/* stitched block functions (NASM / C base): ASSUMED = mh_sha1 block || 64 murmur blocks per 1024 bytes */
#define VF_MUR_STITCH_CONTRACT(NAME)                                                               \
        void NAME(const uint8_t *input_data, uint32_t digests[VF_MH_W][16], uint8_t frame_buffer[VF_MHB], \
                  uint32_t murmur3_x64_128_digests[4], uint32_t num_blocks)                        \
        __CPROVER_requires(num_blocks >= 1)                                                        \
        __CPROVER_requires(VF_MH_SRC_PARTIAL(input_data) ? num_blocks == 1                         \
                                                         : VF_MH_SRC_USER(input_data, num_blocks)) \
        __CPROVER_requires((void *) digests == (void *) g_ctx->VF_MH_INTERIM)                      \
        __CPROVER_requires(__CPROVER_same_object(frame_buffer, g_ctx->frame_buffer) &&             \
                           VF_OFF(frame_buffer) >= VF_OFF(g_ctx->frame_buffer) &&                  \
                           VF_OFF(frame_buffer) + VF_MHB <= VF_OFF(g_ctx->frame_buffer) + sizeof(g_ctx->frame_buffer)) \
        __CPROVER_requires(vfM.hashed + (uint64_t) num_blocks * VF_MHB <= g_total)                 \
        __CPROVER_requires(!(g_P >= vfM.hashed && g_P < vfM.hashed + (uint64_t) num_blocks * VF_MHB) || \
                           VF_MH_INBYTE(input_data, g_P - vfM.hashed) == VF_MH_EXPECT(g_P))        \
        VF_MUR_BLOCK_REQ                                                                           \
        __CPROVER_assigns(vfM, __CPROVER_object_whole(g_ctx))                                      \
        __CPROVER_ensures(g_ctx->total_length == __CPROVER_old(g_ctx->total_length))               \
        __CPROVER_ensures(vfM.hashed == __CPROVER_old(vfM.hashed) + (uint64_t) num_blocks * VF_MHB) \
        __CPROVER_ensures(vfM.outer_calls == __CPROVER_old(vfM.outer_calls) &&                     \
                          vfM.mur_tail_done == __CPROVER_old(vfM.mur_tail_done))                   \
        VF_MUR_BLOCK_ENS;

/* murmur over the complete 16-byte blocks of the partial buffer, then the tail */
void
_murmur3_x64_128_block(const uint8_t *input_data, uint32_t num_blocks, uint32_t digests[4])
        /* clang-format off */
__CPROVER_requires(input_data == (const uint8_t *) g_ctx->partial_block_buffer && (void *) digests == VF_MUR_DIG)
__CPROVER_requires(vfM.mur_blocks == vfM.hashed / 16u && vfM.hashed == (g_total & ~(uint64_t) 1023u) && !vfM.mur_tail_done)
__CPROVER_requires((uint64_t) num_blocks == (g_total - vfM.hashed) / 16u)
/* the partial buffer still holds the stream bytes (the multi-hash tail has not padded it yet) */
__CPROVER_requires(!(g_P >= vfM.hashed && g_P < g_total) || g_ctx->partial_block_buffer[g_P - vfM.hashed] == g_byteP)
__CPROVER_assigns(vfM, __CPROVER_object_upto(digests, 16))
__CPROVER_ensures(vfM.mur_blocks == __CPROVER_old(vfM.mur_blocks) + (uint64_t) num_blocks &&
                  vfM.hashed == __CPROVER_old(vfM.hashed) && vfM.outer_calls == __CPROVER_old(vfM.outer_calls) &&
                  vfM.mur_tail_done == __CPROVER_old(vfM.mur_tail_done))
        /* clang-format on */
        ;
void
_murmur3_x64_128_tail(const uint8_t *tail_buffer, uint32_t total_len, uint32_t digests[4])
        /* clang-format off */
__CPROVER_requires((void *) digests == VF_MUR_DIG && !vfM.mur_tail_done)
__CPROVER_requires(vfM.mur_blocks == g_total / 16u && vfM.hashed == (g_total & ~(uint64_t) 1023u))
__CPROVER_requires(tail_buffer == (const uint8_t *) g_ctx->partial_block_buffer + (vfM.mur_blocks * 16u - vfM.hashed))
__CPROVER_requires((uint64_t) total_len == g_total)
__CPROVER_requires(!(g_P >= vfM.mur_blocks * 16u && g_P < g_total) || g_ctx->partial_block_buffer[g_P - vfM.hashed] == g_byteP)
__CPROVER_assigns(vfM, __CPROVER_object_upto(digests, 16))
__CPROVER_ensures(vfM.mur_tail_done == 1 && vfM.mur_blocks == __CPROVER_old(vfM.mur_blocks) &&
                  vfM.hashed == __CPROVER_old(vfM.hashed) && vfM.outer_calls == __CPROVER_old(vfM.outer_calls))
        /* clang-format on */
        ;
#endif

#ifdef VF_MUR
#define VF_MUR_TAIL_KEEP __CPROVER_ensures(g_ctx->murmur3_x64_128_digest[g_W & 3] == __CPROVER_old(g_ctx->murmur3_x64_128_digest[g_W & 3]))
#else
#define VF_MUR_TAIL_KEEP
#endif
#ifndef VF_MUR
#define VF_MUR_BLOCK_REQ
#define VF_MUR_BLOCK_ENS __CPROVER_ensures(vfM.mur_blocks == __CPROVER_old(vfM.mur_blocks))
#define VF_MUR_UPDATE_REQ
#define VF_MUR_UPDATE_ENS
#define VF_MUR_FINALIZE_REQ
#define VF_MUR_FINALIZE_ASSIGNS
#define VF_MUR_FINALIZE_ENS
#endif

VF_MH_BLOCKFNS(VF_MH_BLOCK_CONTRACT)
VF_MH_OUTER_DECL

#endif
