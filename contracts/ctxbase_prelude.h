/* ctxbase_prelude.h - contracts for the synchronous C family (*_mb/*_ctx_base.c).
 * Same ghost vocabulary as ctx_prelude.h (role A only: there is no lane manager): vfG.A.hashed,
 * g_P / vfG.A.byteP (witness stream position and byte), vfG.A.o (its offset in the caller's buffer),
 * vfG.A.dw (digest word g_W as last written by the IV or by the compression function).
 * VF_SINGLE is the compression function of the file; its contract is ASSUMED in these jobs (the
 * compression functions against the standards are not under contract yet, DESIGN.md sec. 8). */
#define VF_MGR_SUBMIT vf_unused_mgr_submit
#define VF_MGR_FLUSH vf_unused_mgr_flush
#include "ctx_prelude.h"

#define VF_B_TOTAL (g_A->total_length)

/* compression function: one block at `data` */
#define VF_C_SINGLE                                                                                \
        __CPROVER_requires((void *) digest == (void *) g_A->job.result_digest)                     \
        __CPROVER_requires(__CPROVER_r_ok(data, VF_BLOCK))                                         \
        /* never beyond the padded stream; that X_update never consumes padding follows from its own       \
         * post-condition hashed + partial == total */                                             \
        __CPROVER_requires(gA.hashed + VF_BLOCK <= VF_PADDED(VF_B_TOTAL))                          \
        /* tape check */                                                                           \
        __CPROVER_requires(!(g_P >= gA.hashed && g_P < gA.hashed + VF_BLOCK) ||                    \
                           ((const uint8_t *) data)[g_P - gA.hashed] == VF_EXPECT(g_A, gA.byteP, g_P)) \
        __CPROVER_requires(g_A->job.result_digest[g_W] == gA.dw && !gA.swapped)                    \
        __CPROVER_assigns(vfG, __CPROVER_object_upto(digest, VF_NWORDS * sizeof(VF_WORD_T)))       \
        __CPROVER_ensures(gA.hashed == __CPROVER_old(gA.hashed) + VF_BLOCK)                        \
        __CPROVER_ensures(gA.dw == g_A->job.result_digest[g_W])                                    \
        __CPROVER_ensures(gA.o == __CPROVER_old(gA.o) && gA.byteP == __CPROVER_old(gA.byteP) &&    \
                          gA.swapped == __CPROVER_old(gA.swapped) && gA.ud == __CPROVER_old(gA.ud) && \
                          gA.jud == __CPROVER_old(gA.jud))

/* layout of the base family: everything not yet hashed sits in the partial buffer */
#define VF_B_LAYOUT(total)                                                                         \
        ((gA.hashed & (VF_BLOCK - 1)) == 0 && gA.hashed <= (uint64_t) (total) &&                   \
         (uint64_t) (total) < VF_MAXTOT && VF_PLEN(g_A) < VF_BLOCK &&                              \
         gA.hashed + VF_PLEN(g_A) == (uint64_t) (total) &&                                         \
         (!(g_P >= gA.hashed && g_P < (uint64_t) (total)) ||                                       \
          g_A->partial_block_buffer[g_P - gA.hashed] == gA.byteP))

#define VF_C_B_INIT                                                                                \
        __CPROVER_requires(ctx == g_A && g_W < VF_NWORDS)                                          \
        __CPROVER_assigns(__CPROVER_object_whole(g_A))                                             \
        __CPROVER_ensures(ctx->total_length == 0 && ctx->partial_block_buffer_length == 0 &&       \
                          (int) ctx->error == 0 && VF_ST(ctx) == VF_P &&                           \
                          ctx->job.result_digest[g_W] == vf_iv[g_W])                               \
        __CPROVER_ensures(ctx->user_data == __CPROVER_old(ctx->user_data) &&                       \
                          ctx->job.user_data == __CPROVER_old(ctx->job.user_data))

#define VF_C_B_UPDATE                                                                              \
        __CPROVER_requires(ctx == g_A && (const uint8_t *) buffer == g_bufA && len == g_lenA && g_W < VF_NWORDS) \
        __CPROVER_requires(ctx->total_length + (uint64_t) len < VF_MAXTOT && !gA.swapped) \
        __CPROVER_requires(VF_B_LAYOUT(ctx->total_length) && ctx->job.result_digest[g_W] == gA.dw)  \
        __CPROVER_requires((g_P >= ctx->total_length && g_P < ctx->total_length + (uint64_t) len) ==> \
                           (gA.o == g_P - ctx->total_length && g_bufA[gA.o] == gA.byteP))          \
        __CPROVER_assigns(__CPROVER_object_whole(g_A), vfG)                                        \
        __CPROVER_ensures(ctx->total_length == __CPROVER_old(ctx->total_length) + (uint64_t) len)  \
        __CPROVER_ensures(VF_B_LAYOUT(ctx->total_length) && ctx->job.result_digest[g_W] == gA.dw)  \
        __CPROVER_ensures(VF_ST(ctx) == 0 && !gA.swapped)                                          \
        __CPROVER_ensures(ctx->user_data == __CPROVER_old(ctx->user_data) &&                       \
                          ctx->job.user_data == __CPROVER_old(ctx->job.user_data) &&               \
                          (int) ctx->error == (int) __CPROVER_old(ctx->error))

#define VF_L_B_UPDATE                                                                              \
        __CPROVER_assigns(buffer, remain_len, vfG,                                                 \
                          __CPROVER_object_upto(g_A->job.result_digest, VF_NWORDS * sizeof(VF_WORD_T))) \
        __CPROVER_loop_invariant(remain_len <= len && __CPROVER_same_object(buffer, g_bufA) &&     \
                                 VF_OFF(buffer) == VF_OFF(g_bufA) + (uint64_t) (len - remain_len)) \
        __CPROVER_loop_invariant((gA.hashed & (VF_BLOCK - 1)) == 0 &&                              \
                                 gA.hashed + (uint64_t) remain_len == g_A->total_length)           \
        __CPROVER_loop_invariant(g_A->job.result_digest[g_W] == gA.dw && !gA.swapped)              \
        __CPROVER_loop_invariant(gA.o == __CPROVER_loop_entry(gA.o) &&                             \
                                 gA.byteP == __CPROVER_loop_entry(gA.byteP))                       \
        __CPROVER_decreases(remain_len)

#define VF_C_B_FINAL                                                                               \
        __CPROVER_requires(ctx == g_A && g_W < VF_NWORDS && !gA.swapped)         \
        __CPROVER_requires(VF_B_LAYOUT(ctx->total_length) && ctx->job.result_digest[g_W] == gA.dw)  \
        __CPROVER_assigns(__CPROVER_object_whole(g_A), vfG)                                        \
        __CPROVER_ensures(gA.hashed == VF_PADDED(ctx->total_length))                               \
        __CPROVER_ensures(ctx->total_length == __CPROVER_old(ctx->total_length))                   \
        __CPROVER_ensures(VF_ST(ctx) == VF_C && ctx->job.result_digest[g_W] == VF_FINAL_DW(gA))    \
        __CPROVER_ensures(ctx->user_data == __CPROVER_old(ctx->user_data) &&                       \
                          ctx->job.user_data == __CPROVER_old(ctx->job.user_data) &&               \
                          (int) ctx->error == (int) __CPROVER_old(ctx->error))

/* the synchronous submit.  Rejection tests of the base family are weaker than the scheduler
 * families' (a PROCESSING context is only refused for ENTIRE) - specified as coded; a context is
 * never handed back PROCESSING by this family, so the weaker test is not reachable through the API. */
#define VF_BREJ_FLAGS ((uint32_t) flags & ~3u)
#define VF_BREJ_PROC  (!VF_BREJ_FLAGS && (VF_ST(ctx) & VF_P) && (uint32_t) flags == 3u)
#define VF_BREJ_COMPL (!VF_BREJ_FLAGS && !VF_BREJ_PROC && (VF_ST(ctx) & VF_C) && !((uint32_t) flags & 1u))
#define VF_BREJ       (VF_BREJ_FLAGS || VF_BREJ_PROC || VF_BREJ_COMPL)
#define VF_BOST       ((uint32_t) __CPROVER_old(ctx->status))
#define VF_BREJ_PROC_O  (!VF_BREJ_FLAGS && (VF_BOST & VF_P) && (uint32_t) flags == 3u)
#define VF_BREJ_COMPL_O (!VF_BREJ_FLAGS && !VF_BREJ_PROC_O && (VF_BOST & VF_C) && !((uint32_t) flags & 1u))
#define VF_BREJ_O     (VF_BREJ_FLAGS || VF_BREJ_PROC_O || VF_BREJ_COMPL_O)
#define VF_C_B_SUBMIT                                                                              \
        __CPROVER_requires(ctx == g_A && (const uint8_t *) buffer == g_bufA && len == g_lenA && g_W < VF_NWORDS) \
        __CPROVER_requires(!VF_BREJ ==> (                                                          \
                (VF_ST(ctx) == 0 || VF_ST(ctx) == VF_C) && VF_T0 + len < VF_MAXTOT && !gA.swapped && \
                (VF_FIRST ? (gA.hashed == 0 && gA.dw == vf_iv[g_W])                                \
                          : (VF_ST(ctx) == 0 && VF_B_LAYOUT(ctx->total_length) &&                  \
                             ctx->job.result_digest[g_W] == gA.dw)) &&                             \
                ((g_P >= VF_T0 && g_P < VF_T0 + len) ==>                                           \
                 (gA.o == g_P - VF_T0 && g_bufA[gA.o] == gA.byteP))))                              \
        __CPROVER_assigns(VF_BREJ : ctx->error)                                                    \
        __CPROVER_assigns(!VF_BREJ : __CPROVER_object_whole(g_A), vfG)                  \
        __CPROVER_ensures(__CPROVER_return_value == ctx)                                           \
        __CPROVER_ensures(VF_BREJ_FLAGS ==> (int) ctx->error == -1)                                \
        __CPROVER_ensures(VF_BREJ_PROC_O ==> (int) ctx->error == -2)                               \
        __CPROVER_ensures(VF_BREJ_COMPL_O ==> (int) ctx->error == -3)                              \
        /* C11: an accepted call never carries an error left over from an earlier rejection */   \
        __CPROVER_ensures(!VF_BREJ_O ==> (int) ctx->error == 0)                                    \
        __CPROVER_ensures(!VF_BREJ_O ==> ctx->total_length == VF_T0_O + len)                       \
        __CPROVER_ensures(!VF_BREJ_O ==> VF_ST(ctx) == (VF_LASTF ? VF_C : 0u))                     \
        __CPROVER_ensures((!VF_BREJ_O && !VF_LASTF) ==>                                            \
                          (VF_B_LAYOUT(ctx->total_length) && ctx->job.result_digest[g_W] == gA.dw)) \
        __CPROVER_ensures((!VF_BREJ_O && VF_LASTF) ==>                                             \
                          (gA.hashed == VF_PADDED(ctx->total_length) &&                            \
                           ctx->job.result_digest[g_W] == VF_FINAL_DW(gA)))                        \
        __CPROVER_ensures(ctx->user_data == __CPROVER_old(ctx->user_data) &&                       \
                          ctx->job.user_data == __CPROVER_old(ctx->job.user_data))

/* libc memcpy with run-time length (sha512 base update; every X_final): source-offset witness for the
 * caller's buffer, and for X_final's copy of the partial buffer into its local pad buffer */
void *
memcpy(void *dst, const void *src, size_t n)
        /* clang-format off */
__CPROVER_requires(n <= 2 * VF_BLOCK && __CPROVER_r_ok(src, n) && __CPROVER_w_ok(dst, n))
__CPROVER_assigns(__CPROVER_object_upto(dst, n))
__CPROVER_ensures(__CPROVER_return_value == dst)
__CPROVER_ensures(VF_WIT_IN(gA.o, g_bufA, src, n) ==> ((const uint8_t *) dst)[gA.o - VF_OFF(src)] == g_bufA[gA.o])
/* copy out of the partial buffer (X_final): the witness byte travels with its index */
__CPROVER_ensures((src == (const void *) g_A->partial_block_buffer && g_P >= gA.hashed && g_P - gA.hashed < n) ==>
                  ((const uint8_t *) dst)[g_P - gA.hashed] == g_A->partial_block_buffer[g_P - gA.hashed])
        /* clang-format on */
        ;
