/* compress_prelude.h - the compression functions of the C family against the standards.
 *
 * Technique: per-round cut points.  The overlay inserts ghost code into the real function:
 *   VF_BEGINn(...)  before the first round: runs the standard's schedule on the block (spec/round_specs.h)
 *                   and loads the standard's working variables from the chaining value;
 *   VF_CUTn(i, ...) after the code of round i: advances the STANDARD by one round, asserts that the
 *                   implementation's variables (in the rotated naming of that line) equal the standard's
 *                   working variables and that the schedule word it used equals the standard's W_i, and
 *                   then continues from the standard's values - so every obligation is a one-round
 *                   equivalence over ALL 2^(block+state) inputs, which SAT decides in seconds, while
 *                   the monolithic 64/80-round miter does not finish.
 * The postcondition of X_single is then: chaining word k == standard's chaining word k (ghost index g_k),
 * all rounds were taken in order (vfS.t == S_NR), nothing but the digest words is written.
 */
unsigned g_k;
#ifdef VF_MH_SEG
/* multi-hash block functions: 16 segments advance in lock step; the proof is for an ARBITRARY segment g_s:
 * message word t of segment s is the 32-bit word t*16+s of the 1024-byte block, chaining word k is digests[k][s] */
#ifdef VF_SEG_CONST
#define g_s VF_SEG_CONST /* one job per segment: the other 15 lanes fall out of the cone of influence */
#else
unsigned g_s;
#endif
#define S_MB(M, t, j) ((M)[4 * ((t) * 16 + g_s) + (j)])
#define S_HK(H, k) ((H)[(k) * 16 + g_s])
#endif
#include "round_specs.h"

#define VF_C_SINGLE_FN                                                                             \
        __CPROVER_requires(g_k < S_NS)                                                             \
        __CPROVER_requires(__CPROVER_r_ok(data, S_BLOCK) && __CPROVER_w_ok(digest, S_NS * sizeof(S_WORD))) \
        __CPROVER_assigns(vfS, __CPROVER_object_upto(digest, S_NS * sizeof(S_WORD)))               \
        __CPROVER_ensures(vfS.t == S_NR)                                                           \
        __CPROVER_ensures(digest[g_k] == S_FINAL(g_k))

#define VF_A_(c, msg) __CPROVER_assert(c, msg)
#include "compress_switch.h"
#define VF_ORDER(i) VF_A_(vfS.t == (i), "compress: rounds taken in the standard's order")

#define VF_BEGIN4(A, B, C, D)                                                                      \
        do {                                                                                       \
                vf_spec_begin((const uint8_t *) data, digest);                                     \
                VF_A_(A == vfS.s[0] && B == vfS.s[1] && C == vfS.s[2] && D == vfS.s[3], "compress: working variables loaded from the chaining value"); \
        } while (0)
#define VF_BEGIN5(A, B, C, D, E)                                                                   \
        do {                                                                                       \
                vf_spec_begin((const uint8_t *) data, digest);                                     \
                VF_A_(A == vfS.s[0] && B == vfS.s[1] && C == vfS.s[2] && D == vfS.s[3] && E == vfS.s[4], "compress: working variables loaded from the chaining value"); \
        } while (0)
#define VF_BEGIN8(A, B, C, D, E, F, G, H)                                                          \
        do {                                                                                       \
                vf_spec_begin((const uint8_t *) data, digest);                                     \
                VF_A_(A == vfS.s[0] && B == vfS.s[1] && C == vfS.s[2] && D == vfS.s[3] && E == vfS.s[4] && F == vfS.s[5] && G == vfS.s[6] && H == vfS.s[7], "compress: working variables loaded from the chaining value"); \
        } while (0)

/* MD5: no schedule array (X[k] is read from the block by the step itself) */
#define VF_CUT4(i, A, B, C, D)                                                                     \
        do {                                                                                       \
                VF_ORDER(i);                                                                       \
                vf_spec_round();                                                                   \
                VF_A_(A == vfS.s[0] && B == vfS.s[1] && C == vfS.s[2] && D == vfS.s[3], "compress: round equals the standard's round"); \
                A = vfS.s[0]; B = vfS.s[1]; C = vfS.s[2]; D = vfS.s[3];                            \
        } while (0)
#define VF_CUT5(i, A, B, C, D, E)                                                                  \
        do {                                                                                       \
                VF_ORDER(i);                                                                       \
                vf_spec_round();                                                                   \
                VF_A_(W(i) == vfS.W[i], "compress: schedule word equals the standard's W_t");      \
                VF_A_(A == vfS.s[0] && B == vfS.s[1] && C == vfS.s[2] && D == vfS.s[3] && E == vfS.s[4], "compress: round equals the standard's round"); \
                W(i) = vfS.W[i];                                                                   \
                A = vfS.s[0]; B = vfS.s[1]; C = vfS.s[2]; D = vfS.s[3]; E = vfS.s[4];              \
        } while (0)
#define VF_CUT8_(i, A, B, C, D, E, F, G, H)                                                        \
                VF_A_(A == vfS.s[0] && B == vfS.s[1] && C == vfS.s[2] && D == vfS.s[3] && E == vfS.s[4] && F == vfS.s[5] && G == vfS.s[6] && H == vfS.s[7], "compress: round equals the standard's round"); \
                A = vfS.s[0]; B = vfS.s[1]; C = vfS.s[2]; D = vfS.s[3]; E = vfS.s[4]; F = vfS.s[5]; G = vfS.s[6]; H = vfS.s[7];
#define VF_CUT8(i, A, B, C, D, E, F, G, H)                                                         \
        do {                                                                                       \
                VF_ORDER(i);                                                                       \
                vf_spec_round();                                                                   \
                VF_A_(W(i) == vfS.W[i], "compress: schedule word equals the standard's W_t");      \
                W(i) = vfS.W[i];                                                                   \
                VF_CUT8_(i, A, B, C, D, E, F, G, H)                                                \
        } while (0)
/* SM3: schedule arrays W / W' are filled by sm3_message_schedule() before the rounds */
#define VF_SM3_SCHED(W_, Wb_)                                                                      \
        do {                                                                                       \
                for (int vq = 0; vq < 68; vq++) {                                                  \
                        VF_QSWITCH(W_[vq] == vfS.W[vq])                                            \
                        W_[vq] = vfS.W[vq];                                                        \
                }                                                                                  \
                for (int vq = 0; vq < 64; vq++) {                                                  \
                        VF_QBSWITCH(Wb_[vq] == vfS.Wb[vq])                                         \
                        Wb_[vq] = vfS.Wb[vq];                                                      \
                }                                                                                  \
        } while (0)
/* SM3 rounds: loop contract - the implementation's variables equal the standard's working variables
 * after j rounds, for an ARBITRARY j (the schedule arrays are not written by the loop) */
#define VF_L_SM3(A, B, C, D, E, F, G, H)                                                           \
        __CPROVER_assigns(j, A, B, C, D, E, F, G, H, vfS.t, __CPROVER_object_upto(vfS.s, sizeof(vfS.s))) \
        __CPROVER_loop_invariant(0 <= j && j <= 64 && vfS.t == j)                                  \
        __CPROVER_loop_invariant(A == vfS.s[0] && B == vfS.s[1] && C == vfS.s[2] && D == vfS.s[3] && \
                                 E == vfS.s[4] && F == vfS.s[5] && G == vfS.s[6] && H == vfS.s[7]) \
        __CPROVER_decreases(64 - j)
#define VF_SM3_STEP(i)                                                                             \
        do {                                                                                       \
                VF_ORDER(i);                                                                       \
                vf_spec_round();                                                                   \
        } while (0)
#define VF_CUT8L(i, A, B, C, D, E, F, G, H)                                                        \
        do {                                                                                       \
                VF_ORDER(i);                                                                       \
                vf_spec_round();                                                                   \
                VF_RSWITCH(A == vfS.s[0] && B == vfS.s[1] && C == vfS.s[2] && D == vfS.s[3] && E == vfS.s[4] && F == vfS.s[5] && G == vfS.s[6] && H == vfS.s[7]) \
                A = vfS.s[0]; B = vfS.s[1]; C = vfS.s[2]; D = vfS.s[3]; E = vfS.s[4]; F = vfS.s[5]; G = vfS.s[6]; H = vfS.s[7]; \
        } while (0)

#ifdef VF_MH_SEG
#define VF_C_MH_SINGLE_FN                                                                          \
        __CPROVER_requires(g_k < S_NS && g_s < 16)                                                 \
        __CPROVER_requires(__CPROVER_r_ok(input, 1024) && __CPROVER_w_ok(digests, S_NS * 16 * sizeof(S_WORD)) && \
                           __CPROVER_w_ok(frame_buffer, 1024))                                     \
        __CPROVER_assigns(vfS, __CPROVER_object_upto(digests, S_NS * 16 * sizeof(S_WORD)),         \
                          __CPROVER_object_upto(frame_buffer, 1024))                               \
        __CPROVER_ensures(vfS.t == S_NR)                                                           \
        __CPROVER_ensures(digests[g_k][g_s] == S_FINAL(g_k))
#define VF_X(v) v[g_s]
#define VF_MHBEGIN5(A, B, C, D, E)                                                                 \
        do {                                                                                       \
                vf_spec_begin((const uint8_t *) input, (const S_WORD *) digests);                  \
                VF_A_(VF_X(A) == vfS.s[0] && VF_X(B) == vfS.s[1] && VF_X(C) == vfS.s[2] && VF_X(D) == vfS.s[3] && VF_X(E) == vfS.s[4], "compress: working variables loaded from the chaining value"); \
        } while (0)
#define VF_MHBEGIN8(A, B, C, D, E, F, G, H)                                                        \
        do {                                                                                       \
                vf_spec_begin((const uint8_t *) input, (const S_WORD *) digests);                  \
                VF_A_(VF_X(A) == vfS.s[0] && VF_X(B) == vfS.s[1] && VF_X(C) == vfS.s[2] && VF_X(D) == vfS.s[3] && VF_X(E) == vfS.s[4] && VF_X(F) == vfS.s[5] && VF_X(G) == vfS.s[6] && VF_X(H) == vfS.s[7], "compress: working variables loaded from the chaining value"); \
        } while (0)
#define VF_MHCUT5(i, A, B, C, D, E)                                                                \
        do {                                                                                       \
                VF_ORDER(i);                                                                       \
                vf_spec_round();                                                                   \
                VF_A_(w[(i) & 15][g_s] == vfS.W[vfS.t - 1], "compress: schedule word equals the standard's W_t"); \
                VF_A_(VF_X(A) == vfS.s[0] && VF_X(B) == vfS.s[1] && VF_X(C) == vfS.s[2] && VF_X(D) == vfS.s[3] && VF_X(E) == vfS.s[4], "compress: round equals the standard's round"); \
                w[(i) & 15][g_s] = vfS.W[vfS.t - 1];                                               \
                VF_X(A) = vfS.s[0]; VF_X(B) = vfS.s[1]; VF_X(C) = vfS.s[2]; VF_X(D) = vfS.s[3]; VF_X(E) = vfS.s[4]; \
        } while (0)
#define VF_MHCUT8(i, A, B, C, D, E, F, G, H)                                                       \
        do {                                                                                       \
                VF_ORDER(i);                                                                       \
                vf_spec_round();                                                                   \
                VF_WSWITCH(w[(i) & 15][g_s] == vfS.W[vfS.t - 1])                                   \
                VF_RSWITCH(VF_X(A) == vfS.s[0] && VF_X(B) == vfS.s[1] && VF_X(C) == vfS.s[2] && VF_X(D) == vfS.s[3] && VF_X(E) == vfS.s[4] && VF_X(F) == vfS.s[5] && VF_X(G) == vfS.s[6] && VF_X(H) == vfS.s[7]) \
                w[(i) & 15][g_s] = vfS.W[vfS.t - 1];                                               \
                VF_X(A) = vfS.s[0]; VF_X(B) = vfS.s[1]; VF_X(C) = vfS.s[2]; VF_X(D) = vfS.s[3]; VF_X(E) = vfS.s[4]; VF_X(F) = vfS.s[5]; VF_X(G) = vfS.s[6]; VF_X(H) = vfS.s[7]; \
        } while (0)
#endif
