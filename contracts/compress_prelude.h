/* compress_prelude.h - the compression functions of the C family against the standards.
 *
 * Technique: per-round cut points.  The overlay inserts ghost code into the real function:
 *   VF_BEGINn(...)  before the first round: runs the standard's schedule on the block (spec/round_specs.h)
 *                   and loads the standard's working variables from the chaining value;
 *   VF_CUTn(i, ...) after the code of round i: advances the STANDARD by one round, asserts that the
 *                   implementation's variables (in the rotated naming of that line) equal the standard's
 *                   working variables and that the schedule word it used equals the standard's W_i, and
 *                   then continues from the standard's values - so every obligation is a one-round
 *                   equivalence over ALL 2^(block+state) inputs, which SAT decides in seconds, while
 *                   the monolithic 64/80-round miter does not finish.
 * The postcondition of X_single is then: chaining word k == standard's chaining word k (ghost index g_k),
 * all rounds were taken in order (vfS.t == S_NR), nothing but the digest words is written.
 */
#include "round_specs.h"
unsigned g_k;

#define VF_C_SINGLE_FN                                                                             \
        __CPROVER_requires(g_k < S_NS)                                                             \
        __CPROVER_requires(__CPROVER_r_ok(data, S_BLOCK) && __CPROVER_w_ok(digest, S_NS * sizeof(S_WORD))) \
        __CPROVER_assigns(vfS, __CPROVER_object_upto(digest, S_NS * sizeof(S_WORD)))               \
        __CPROVER_ensures(vfS.t == S_NR)                                                           \
        __CPROVER_ensures(digest[g_k] == S_FINAL(g_k))

#define VF_A_(c, msg) __CPROVER_assert(c, msg)
#define VF_ORDER(i) VF_A_(vfS.t == (i), "compress: rounds taken in the standard's order")

#define VF_BEGIN4(A, B, C, D)                                                                      \
        do {                                                                                       \
                vf_spec_begin((const uint8_t *) data, digest);                                     \
                VF_A_(A == vfS.s[0] && B == vfS.s[1] && C == vfS.s[2] && D == vfS.s[3], "compress: working variables loaded from the chaining value"); \
        } while (0)
#define VF_BEGIN5(A, B, C, D, E)                                                                   \
        do {                                                                                       \
                vf_spec_begin((const uint8_t *) data, digest);                                     \
                VF_A_(A == vfS.s[0] && B == vfS.s[1] && C == vfS.s[2] && D == vfS.s[3] && E == vfS.s[4], "compress: working variables loaded from the chaining value"); \
        } while (0)
#define VF_BEGIN8(A, B, C, D, E, F, G, H)                                                          \
        do {                                                                                       \
                vf_spec_begin((const uint8_t *) data, digest);                                     \
                VF_A_(A == vfS.s[0] && B == vfS.s[1] && C == vfS.s[2] && D == vfS.s[3] && E == vfS.s[4] && F == vfS.s[5] && G == vfS.s[6] && H == vfS.s[7], "compress: working variables loaded from the chaining value"); \
        } while (0)

/* MD5: no schedule array (X[k] is read from the block by the step itself) */
#define VF_CUT4(i, A, B, C, D)                                                                     \
        do {                                                                                       \
                VF_ORDER(i);                                                                       \
                vf_spec_round();                                                                   \
                VF_A_(A == vfS.s[0] && B == vfS.s[1] && C == vfS.s[2] && D == vfS.s[3], "compress: round equals the standard's round"); \
                A = vfS.s[0]; B = vfS.s[1]; C = vfS.s[2]; D = vfS.s[3];                            \
        } while (0)
#define VF_CUT5(i, A, B, C, D, E)                                                                  \
        do {                                                                                       \
                VF_ORDER(i);                                                                       \
                vf_spec_round();                                                                   \
                VF_A_(W(i) == vfS.W[i], "compress: schedule word equals the standard's W_t");      \
                VF_A_(A == vfS.s[0] && B == vfS.s[1] && C == vfS.s[2] && D == vfS.s[3] && E == vfS.s[4], "compress: round equals the standard's round"); \
                W(i) = vfS.W[i];                                                                   \
                A = vfS.s[0]; B = vfS.s[1]; C = vfS.s[2]; D = vfS.s[3]; E = vfS.s[4];              \
        } while (0)
#define VF_CUT8_(i, A, B, C, D, E, F, G, H)                                                        \
                VF_A_(A == vfS.s[0] && B == vfS.s[1] && C == vfS.s[2] && D == vfS.s[3] && E == vfS.s[4] && F == vfS.s[5] && G == vfS.s[6] && H == vfS.s[7], "compress: round equals the standard's round"); \
                A = vfS.s[0]; B = vfS.s[1]; C = vfS.s[2]; D = vfS.s[3]; E = vfS.s[4]; F = vfS.s[5]; G = vfS.s[6]; H = vfS.s[7];
#define VF_CUT8(i, A, B, C, D, E, F, G, H)                                                         \
        do {                                                                                       \
                VF_ORDER(i);                                                                       \
                vf_spec_round();                                                                   \
                VF_A_(W(i) == vfS.W[i], "compress: schedule word equals the standard's W_t");      \
                W(i) = vfS.W[i];                                                                   \
                VF_CUT8_(i, A, B, C, D, E, F, G, H)                                                \
        } while (0)
/* SM3: schedule arrays W / W' are filled by sm3_message_schedule() before the rounds */
#define VF_SM3_SCHED(W_, Wb_)                                                                      \
        do {                                                                                       \
                for (int vq = 0; vq < 68; vq++) {                                                  \
                        VF_A_(W_[vq] == vfS.W[vq], "compress: schedule word equals the standard's W_j"); \
                        W_[vq] = vfS.W[vq];                                                        \
                }                                                                                  \
                for (int vq = 0; vq < 64; vq++) {                                                  \
                        VF_A_(Wb_[vq] == vfS.Wb[vq], "compress: schedule word equals the standard's W'_j"); \
                        Wb_[vq] = vfS.Wb[vq];                                                      \
                }                                                                                  \
        } while (0)
#define VF_CUT8L(i, A, B, C, D, E, F, G, H)                                                        \
        do {                                                                                       \
                VF_ORDER(i);                                                                       \
                vf_spec_round();                                                                   \
                VF_CUT8_(i, A, B, C, D, E, F, G, H)                                                \
        } while (0)
