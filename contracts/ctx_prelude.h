/*
 * ctx_prelude.h — contracts for the context layer (*_mb/*_ctx_<family>.c).
 *
 * Inserted by vf/ctxlayer.py (through vf/overlay.py) into a scratch copy of the
 * REAL file from /repo, right after the file's last `#include "..."`.  The
 * overlay defines, before this point, the parameter macros
 *
 *   VF_CTX_T VF_MGR_T VF_JOB_T VF_JOBMGR_T VF_WORD_T
 *   VF_BLOCK VF_LOG2 VF_LENF VF_BE VF_NWORDS VF_SM3SWAP VF_IVLIST
 *   VF_MGR_SUBMIT VF_MGR_FLUSH            (names of the lane-manager entry points)
 *
 * and inserts VF_C_SUBMIT / VF_C_FLUSH / VF_C_RESUBMIT / VF_C_HASH_PAD /
 * VF_C_INIT_DIGEST between declarator and body of the corresponding function,
 * VF_L_RESUBMIT / VF_L_FLUSH after the loop headers, and the ghost statement
 * VF_PIN(ctx); as first statement of the resubmit loop body (an identity
 * assignment that re-establishes CBMC's points-to set after the loop havoc).
 * Nothing of the original text is removed or reordered.
 *
 * Ghost model (DESIGN.md §2.3, §2.4, §3 C06):
 *   g_A  the context the user submits in this call (role A)
 *   g_B  "an arbitrary other context handed back by the lane manager" (role B);
 *        re-havocked at each manager return subject to VF_INV_FLIGHT
 *   gA/gB per-role ghost record:
 *        hashed   bytes of the stream already handed to the compression side
 *        byteP    THE byte of the context's stream at position g_P
 *        dw       digest word g_W as last defined by the IV or by the manager
 *        ud,jud   user_data / job.user_data as the user set them
 *        inflight the context's job is inside the lane manager
 *        o        offset inside g_buf{A,B} of stream byte g_P (when it lies there)
 *   g_P  arbitrary fixed stream position (witness), g_W arbitrary digest word index
 *   g_held the one context the ctx layer currently holds (conservation)
 *   g_n  jobs held by the lane manager, g_lanes its lane count
 *   g_work sum over the contexts inside the manager of the hand-overs they still owe
 *
 * CBMC rule obeyed throughout: a pointer is dereferenced in a clause only if
 * its value was established by an assignment (harness malloc, address-of);
 * pointers loaded from havocked memory are only compared / measured
 * (__CPROVER_same_object, __CPROVER_POINTER_OFFSET), never dereferenced.
 */
#ifndef VF_CTX_PRELUDE_H
#define VF_CTX_PRELUDE_H

#ifdef VF_NO_TAPE
#define VF_T(x) 1
#else
#define VF_T(x) (x)
#endif
#ifdef VF_NO_WORK
#define VF_W(x) 1
#define VF_DECREASES(x)
#else
#define VF_W(x) (x)
#define VF_DECREASES(x) __CPROVER_decreases(x)
#endif

typedef struct {
        uint64_t hashed;
        uint64_t o;
        VF_WORD_T dw;
        void *ud;
        void *jud;
        uint8_t byteP;
        uint8_t inflight; /* 0/1 flags; always compared through != 0 */
        uint8_t last;     /* the LAST segment of this message has been accepted */
        uint8_t swapped;  /* SM3: digest words already byte-swapped */
} vf_ghost_t;

VF_CTX_T *g_A;
VF_CTX_T *g_B;
/* all mutable ghosts live in ONE object: every extra assigns target of a replaced
 * contract multiplies the cost of DFCC's inclusion checks during symbolic execution */
struct {
        vf_ghost_t A, B;
        VF_CTX_T *held;
        uint32_t n;
        uint64_t work;
} vfG;
#define gA     vfG.A
#define gB     vfG.B
#define g_held vfG.held
#define g_n    vfG.n
#define g_work vfG.work
uint64_t g_P;
uint32_t g_W;
uint32_t g_lanes;
const uint8_t *g_bufA, *g_bufB; /* current user buffer of role A / B (exact size) */
uint32_t g_lenA, g_lenB;

#define VF_P     ((uint32_t) ISAL_HASH_CTX_STS_PROCESSING)
#define VF_L     ((uint32_t) ISAL_HASH_CTX_STS_LAST)
#define VF_C     ((uint32_t) ISAL_HASH_CTX_STS_COMPLETE)
#define VF_ST(c) ((uint32_t) (c)->status)

#define VF_MAXTOT (1ull << 61)
#define VF_PADDED(t)                                                                               \
        ((((uint64_t) (t)) + 1u + VF_LENF + (VF_BLOCK - 1)) & ~(uint64_t) (VF_BLOCK - 1))
#if VF_BE
#define VF_LENBYTE(t, k) ((uint8_t) ((((uint64_t) (t)) << 3) >> (8 * (7 - (k)))))
#else
#define VF_LENBYTE(t, k) ((uint8_t) ((((uint64_t) (t)) << 3) >> (8 * (k))))
#endif
/* byte of pad(t) at absolute stream position pos, t <= pos < VF_PADDED(t) */
#define VF_PADBYTE(t, pos)                                                                         \
        ((pos) == (t) ? (uint8_t) 0x80                                                             \
                      : ((pos) < VF_PADDED(t) - 8 ? (uint8_t) 0                                    \
                                                  : VF_LENBYTE(t, (pos) - (VF_PADDED(t) - 8))))
#define VF_EXPECT(c, bp, pos)                                                                      \
        ((pos) < (c)->total_length ? (bp) : VF_PADBYTE((c)->total_length, (pos)))

#define VF_PLEN(c) ((uint64_t) (c)->partial_block_buffer_length)
#define VF_ILEN(c) ((uint64_t) (c)->incoming_buffer_length)
#define VF_OFF(p)  ((uint64_t) __CPROVER_POINTER_OFFSET(p))

/* stream layout of a not-yet-complete context: h = bytes already handed over */
#define VF_LAYOUT(c, h, g, buf, blen)                                                              \
        ((((h)) & (VF_BLOCK - 1)) == 0 && (h) <= (c)->total_length &&                              \
         (c)->total_length < VF_MAXTOT && VF_PLEN(c) < VF_BLOCK &&                                 \
         (h) + VF_PLEN(c) + VF_ILEN(c) == (c)->total_length &&                                     \
         (VF_ILEN(c) == 0 ||                                                                       \
          (VF_ILEN(c) <= (blen) &&                                                                 \
           (const uint8_t *) (c)->incoming_buffer == (buf) + ((blen) - (c)->incoming_buffer_length))) && \
         VF_T(!(g_P >= (h) && g_P < (h) + VF_PLEN(c)) ||                                           \
              (c)->partial_block_buffer[g_P - (h)] == (g).byteP) &&                                \
         VF_T(!(g_P >= (h) + VF_PLEN(c) && g_P < (c)->total_length) ||                             \
              ((g).o == ((blen) - VF_ILEN(c)) + (g_P - (h) - VF_PLEN(c)) && (g).o < (blen) &&      \
               (buf)[(g).o] == (g).byteP)))

/* a context whose job is inside (or just came out of) the lane manager */
#define VF_INV_FLIGHT(c, h, g, buf, blen)                                                          \
        ((((VF_ST(c) & (VF_L | VF_C)) != 0) == ((g).last != 0)) &&                                 \
         VF_INV_FLIGHT0(c, h, g, buf, blen))
#define VF_INV_FLIGHT0(c, h, g, buf, blen)                                                         \
        (((VF_ST(c) == VF_P || VF_ST(c) == (VF_P | VF_L)) && VF_LAYOUT(c, h, g, buf, blen) &&      \
          (VF_PLEN(c) == 0 || VF_ILEN(c) == 0)) ||                                                 \
         (VF_ST(c) == (VF_P | VF_C) && (c)->total_length < VF_MAXTOT &&                            \
          VF_T((h) == VF_PADDED((c)->total_length))))

#define VF_UD(c, g) ((c)->user_data == (g).ud && (c)->job.user_data == (g).jud)

#if VF_SM3SWAP
#define VF_BSWAP32(x)                                                                              \
        ((((uint32_t) (x)) << 24) | ((((uint32_t) (x)) & 0xff00u) << 8) |                          \
         ((((uint32_t) (x)) & 0xff0000u) >> 8) | (((uint32_t) (x)) >> 24))
#define VF_FINAL_DW(g) ((VF_WORD_T) VF_BSWAP32((g).dw))
#else
#define VF_FINAL_DW(g) ((g).dw)
#endif

/* what a context handed back to the user looks like (pieces, each its own ensures clause) */
#define VF_RET_STATUS(c, g) (VF_ST(c) == ((g).last ? VF_C : 0u))
#define VF_RET_IDLE_LAYOUT(c, g, buf, blen)                                                        \
        (VF_ST(c) == 0 ==> (VF_LAYOUT(c, (g).hashed, g, buf, blen) && VF_ILEN(c) == 0))
#define VF_RET_IDLE_DIGEST(c, g) (VF_ST(c) == 0 ==> VF_T((c)->job.result_digest[g_W] == (g).dw))
#define VF_RET_DONE_TAPE(c, g)                                                                     \
        (VF_ST(c) == VF_C ==> VF_T((g).hashed == VF_PADDED((c)->total_length)))
#define VF_RET_DONE_DIGEST(c, g)                                                                   \
        (VF_ST(c) == VF_C ==> VF_T((c)->job.result_digest[g_W] == VF_FINAL_DW(g)))
#define VF_ENS_RETURNED(cond, c, g, buf, blen)                                                     \
        __CPROVER_ensures((cond) ==> VF_RET_STATUS(c, g))                                             \
        __CPROVER_ensures((cond) ==> VF_UD(c, g))                                                  \
        __CPROVER_ensures((cond) ==> VF_RET_IDLE_LAYOUT(c, g, buf, blen))                          \
        __CPROVER_ensures((cond) ==> VF_RET_IDLE_DIGEST(c, g))                                     \
        __CPROVER_ensures((cond) ==> VF_RET_DONE_TAPE(c, g))                                       \
        __CPROVER_ensures((cond) ==> VF_RET_DONE_DIGEST(c, g))

/* hand-overs a context still owes before it can be returned (termination measure) */
#define VF_WORKV(st, il)                                                                           \
        ((((uint32_t) (st)) & VF_C)                                                                \
                 ? 0u                                                                              \
                 : ((((uint64_t) (il)) >= VF_BLOCK ? 1u : 0u) + ((((uint32_t) (st)) & VF_L) ? 1u : 0u)))
#define VF_WORK(c) VF_WORKV((c)->status, (c)->incoming_buffer_length)
#define VF_WORK_OLD(c)                                                                             \
        VF_WORKV(__CPROVER_old((c)->status), __CPROVER_old((c)->incoming_buffer_length))
#define VF_WORK_LE(c)                                                                              \
        VF_WORKV(__CPROVER_loop_entry((c)->status), __CPROVER_loop_entry((c)->incoming_buffer_length))

/* ---------------------------------------------------------------------- */
/* Assumed contracts of the lane manager (NASM, or C for sha512 sb_sse4).   */
/* ---------------------------------------------------------------------- */

#define VF_JOB_IS_A(job) ((job) == &g_A->job)
#define VF_JOB_IS_B(job) ((job) == &g_B->job)

/* where the job's data lies: the context's own partial buffer, or its user buffer */
#define VF_SRC_PARTIAL(c, job) ((job)->buffer == (c)->partial_block_buffer)
#define VF_SRC_USER(job, buf, blen)                                                                \
        (__CPROVER_same_object((job)->buffer, (buf)) &&                                            \
         VF_OFF((job)->buffer) + (job)->len * VF_BLOCK <= (blen))
#define VF_JOBBYTE(c, job, buf, k)                                                                 \
        (VF_SRC_PARTIAL(c, job) ? (c)->partial_block_buffer[(k)] : (buf)[VF_OFF((job)->buffer) + (k)])

#define VF_HANDOVER_OK(c, g, job, buf, blen)                                                       \
        ((VF_SRC_PARTIAL(c, job) ? (job)->len <= 2 : VF_SRC_USER(job, buf, blen)) &&               \
         VF_INV_FLIGHT(c, (g).hashed + (job)->len * VF_BLOCK, g, buf, blen) &&                     \
         VF_T(!(g_P >= (g).hashed && g_P < (g).hashed + (job)->len * VF_BLOCK) ||                  \
              VF_JOBBYTE(c, job, buf, g_P - (g).hashed) == VF_EXPECT(c, (g).byteP, g_P)) &&        \
         VF_T((job)->result_digest[g_W] == (g).dw) && VF_UD(c, g) && !(g).swapped)

#define VF_B_RETURNED                                                                              \
        (VF_INV_FLIGHT(g_B, gB.hashed, gB, g_bufB, g_lenB) && VF_UD(g_B, gB) &&                    \
         VF_T(gB.dw == g_B->job.result_digest[g_W]) && !gB.swapped)

VF_JOB_T *
VF_MGR_SUBMIT(VF_JOBMGR_T *state, VF_JOB_T *job)
        /* clang-format off */
__CPROVER_requires(g_held != NULL && job == &g_held->job)
__CPROVER_requires(VF_JOB_IS_A(job) || VF_JOB_IS_B(job))
__CPROVER_requires(g_n < g_lanes)
__CPROVER_requires(job->len >= 1 && job->len < (1u << 28))
__CPROVER_requires(VF_JOB_IS_A(job) ==> (VF_HANDOVER_OK(g_A, gA, job, g_bufA, g_lenA) && !gA.inflight))
__CPROVER_requires(VF_JOB_IS_B(job) ==> VF_HANDOVER_OK(g_B, gB, job, g_bufB, g_lenB))
__CPROVER_assigns(__CPROVER_object_whole(state), __CPROVER_object_whole(g_B), vfG, g_A->job)
/* frame inside the two coarse targets vfG and g_A->job */
__CPROVER_ensures(gA.o == __CPROVER_old(gA.o) && gA.ud == __CPROVER_old(gA.ud) &&
                  gA.jud == __CPROVER_old(gA.jud) && gA.byteP == __CPROVER_old(gA.byteP) &&
                  gA.last == __CPROVER_old(gA.last) &&
                  (gA.swapped != 0) == (__CPROVER_old(gA.swapped) != 0))
__CPROVER_ensures(g_A->job.buffer == __CPROVER_old(g_A->job.buffer) &&
                  g_A->job.len == __CPROVER_old(g_A->job.len) &&
                  g_A->job.user_data == __CPROVER_old(g_A->job.user_data))
__CPROVER_ensures((__CPROVER_return_value != &g_A->job) ==> gA.dw == __CPROVER_old(gA.dw))
__CPROVER_ensures(__CPROVER_return_value == NULL || __CPROVER_return_value == &g_B->job ||
                  (__CPROVER_return_value == &g_A->job &&
                   (VF_JOB_IS_A(job) || (__CPROVER_old(gA.inflight) != 0))))
__CPROVER_ensures(g_held == (VF_CTX_T *) __CPROVER_return_value)
__CPROVER_ensures(__CPROVER_return_value == NULL ? (g_n == __CPROVER_old(g_n) + 1 && g_n < g_lanes)
                                                 : g_n == __CPROVER_old(g_n))
__CPROVER_ensures(gA.hashed == __CPROVER_old(gA.hashed) +
                  (VF_JOB_IS_A(job) ? __CPROVER_old(job->len) * VF_BLOCK : 0))
__CPROVER_ensures((gA.inflight != 0) == ((VF_JOB_IS_A(job) || (__CPROVER_old(gA.inflight) != 0)) &&
                                  __CPROVER_return_value != &g_A->job))
__CPROVER_ensures(__CPROVER_return_value == &g_A->job ==> VF_T(gA.dw == g_A->job.result_digest[g_W]))
__CPROVER_ensures(__CPROVER_return_value == &g_B->job ==> VF_B_RETURNED)
/* termination accounting: g_work = sum of VF_WORK over the contexts inside the manager */
__CPROVER_ensures(VF_W(__CPROVER_return_value == NULL ==>
        g_work == __CPROVER_old(g_work) + VF_WORK_OLD((VF_CTX_T *) job)))
__CPROVER_ensures(VF_W(__CPROVER_return_value == &g_B->job ==>
        (VF_WORK(g_B) + (gA.inflight ? VF_WORK(g_A) : 0u) <=
                 __CPROVER_old(g_work) + VF_WORK_OLD((VF_CTX_T *) job) &&
         g_work == __CPROVER_old(g_work) + VF_WORK_OLD((VF_CTX_T *) job) - VF_WORK(g_B))))
__CPROVER_ensures(VF_W(__CPROVER_return_value == &g_A->job ==>
        (VF_WORK(g_A) <= __CPROVER_old(g_work) + VF_WORK_OLD((VF_CTX_T *) job) &&
         g_work == __CPROVER_old(g_work) + VF_WORK_OLD((VF_CTX_T *) job) - VF_WORK(g_A))))
        /* clang-format on */
        ;

VF_JOB_T *
VF_MGR_FLUSH(VF_JOBMGR_T *state)
        /* clang-format off */
__CPROVER_requires(g_held == NULL)
__CPROVER_assigns(__CPROVER_object_whole(state), __CPROVER_object_whole(g_B), vfG)
__CPROVER_ensures(gA.hashed == __CPROVER_old(gA.hashed) && gA.dw == __CPROVER_old(gA.dw) &&
                  (gA.inflight != 0) == (__CPROVER_old(gA.inflight) != 0) &&
                  gA.o == __CPROVER_old(gA.o) && gA.ud == __CPROVER_old(gA.ud) &&
                  gA.jud == __CPROVER_old(gA.jud) && gA.byteP == __CPROVER_old(gA.byteP) &&
                  gA.last == __CPROVER_old(gA.last) &&
                  (gA.swapped != 0) == (__CPROVER_old(gA.swapped) != 0))
__CPROVER_ensures(__CPROVER_return_value == NULL || __CPROVER_return_value == &g_B->job)
__CPROVER_ensures((__CPROVER_return_value == NULL) == (__CPROVER_old(g_n) == 0))
__CPROVER_ensures(g_held == (VF_CTX_T *) __CPROVER_return_value)
__CPROVER_ensures(__CPROVER_return_value == NULL ? g_n == 0 : g_n == __CPROVER_old(g_n) - 1)
__CPROVER_ensures(__CPROVER_return_value == &g_B->job ==> VF_B_RETURNED)
__CPROVER_ensures(VF_W(__CPROVER_return_value == NULL ==> g_work == __CPROVER_old(g_work)))
__CPROVER_ensures(VF_W(__CPROVER_return_value == &g_B->job ==>
        (VF_WORK(g_B) <= __CPROVER_old(g_work) && g_work == __CPROVER_old(g_work) - VF_WORK(g_B))))
        /* clang-format on */
        ;

/* ---------------------------------------------------------------------- */
/* Assumed here, proved separately on include/memcpy_inline.h (memcpy job) */
/* ---------------------------------------------------------------------- */
#define VF_WIT_IN(o, buf, src, n)                                                                  \
        (__CPROVER_same_object((src), (buf)) && (o) >= VF_OFF(src) && (o) < VF_OFF(src) + (n))

static inline void
memcpy_sse_varlen(void *dst, const void *src, size_t nbytes)
        /* clang-format off */
__CPROVER_requires(nbytes <= 2 * VF_BLOCK)
__CPROVER_requires(__CPROVER_r_ok(src, nbytes) && __CPROVER_w_ok(dst, nbytes))
__CPROVER_assigns(__CPROVER_object_upto(dst, nbytes))
__CPROVER_ensures(VF_T(VF_WIT_IN(gA.o, g_bufA, src, nbytes) ==>
                  ((const uint8_t *) dst)[gA.o - VF_OFF(src)] == g_bufA[gA.o]))
__CPROVER_ensures(VF_T(VF_WIT_IN(gB.o, g_bufB, src, nbytes) ==>
                  ((const uint8_t *) dst)[gB.o - VF_OFF(src)] == g_bufB[gB.o]))
        /* clang-format on */
        ;

/* some instances call the fixed-length variant with a run-time length */
static inline void
memcpy_sse_fixedlen(void *dst, const void *src, size_t nbytes)
        /* clang-format off */
__CPROVER_requires(nbytes <= 2 * VF_BLOCK)
__CPROVER_requires(__CPROVER_r_ok(src, nbytes) && __CPROVER_w_ok(dst, nbytes))
__CPROVER_assigns(__CPROVER_object_upto(dst, nbytes))
__CPROVER_ensures(VF_T(VF_WIT_IN(gA.o, g_bufA, src, nbytes) ==>
                  ((const uint8_t *) dst)[gA.o - VF_OFF(src)] == g_bufA[gA.o]))
__CPROVER_ensures(VF_T(VF_WIT_IN(gB.o, g_bufB, src, nbytes) ==>
                  ((const uint8_t *) dst)[gB.o - VF_OFF(src)] == g_bufB[gB.o]))
        /* clang-format on */
        ;

/* ---------------------------------------------------------------------- */
/* Contracts of the functions of the file itself                            */
/* ---------------------------------------------------------------------- */

#define VF_BASE(t) (((uint64_t) (t)) & ~(uint64_t) (VF_BLOCK - 1))
#define VF_NPAD(t) ((uint32_t) ((VF_PADDED(t) - VF_BASE(t)) >> VF_LOG2))

#define VF_C_HASH_PAD                                                                              \
        __CPROVER_requires(__CPROVER_w_ok(padblock, 2 * VF_BLOCK))                                 \
        __CPROVER_requires(total_len < VF_MAXTOT)                                                  \
        __CPROVER_assigns(__CPROVER_object_upto(padblock, 2 * VF_BLOCK))                           \
        __CPROVER_ensures(__CPROVER_return_value == VF_NPAD(total_len))                            \
        __CPROVER_ensures((g_P >= VF_BASE(total_len) && g_P < VF_PADDED(total_len)) ==>            \
                          padblock[g_P - VF_BASE(total_len)] ==                                    \
                                  (g_P < total_len                                                 \
                                           ? __CPROVER_old(padblock[(g_P - VF_BASE(total_len)) &   \
                                                                    (2 * VF_BLOCK - 1)])           \
                                           : VF_PADBYTE(total_len, g_P)))

#define VF_C_INIT_DIGEST                                                                           \
        __CPROVER_requires(__CPROVER_w_ok(digest, VF_NWORDS * sizeof(VF_WORD_T)))                  \
        __CPROVER_requires(g_W < VF_NWORDS)                                                        \
        __CPROVER_assigns(__CPROVER_object_upto(digest, VF_NWORDS * sizeof(VF_WORD_T)))            \
        __CPROVER_ensures(digest[g_W] == vf_iv[g_W])

static const VF_WORD_T vf_iv[VF_NWORDS] = { VF_IVLIST };

/* state of role X as the ctx layer holds it (came out of the manager or was just accepted) */
#define VF_HELD_A                                                                                  \
        (VF_INV_FLIGHT(g_A, gA.hashed, gA, g_bufA, g_lenA) && VF_UD(g_A, gA) &&                    \
         VF_T(g_A->job.result_digest[g_W] == gA.dw) && !gA.swapped && !gA.inflight)
#define VF_HELD_B                                                                                  \
        (VF_INV_FLIGHT(g_B, gB.hashed, gB, g_bufB, g_lenB) && VF_UD(g_B, gB) &&                    \
         VF_T(g_B->job.result_digest[g_W] == gB.dw) && !gB.swapped)
/* role A while its job is inside the manager: nobody touches it */
#define VF_FLIGHT_A                                                                                \
        (VF_INV_FLIGHT(g_A, gA.hashed, gA, g_bufA, g_lenA) && VF_UD(g_A, gA) && !gA.swapped)

#define VF_WORK_OF(p) ((p) == g_A ? VF_WORK(g_A) : ((p) == g_B ? VF_WORK(g_B) : 0u))
#define VF_WORK_OLD_OF(p)                                                                          \
        ((p) == g_A ? VF_WORK_OLD(g_A) : ((p) == g_B ? VF_WORK_OLD(g_B) : 0u))
#define VF_WORK_LE_OF(p) ((p) == g_A ? VF_WORK_LE(g_A) : ((p) == g_B ? VF_WORK_LE(g_B) : 0u))

/* The harness allocates mgr, g_A, g_B, g_bufA (g_lenA bytes), g_bufB (g_lenB bytes) as
 * distinct exact-size heap objects; the requires below only relate arguments to them. */
#define VF_COMMON_REQ_(bits)                                                                       \
        __CPROVER_requires(g_n < g_lanes && g_W < VF_NWORDS && VF_W(g_work < (1ull << (bits))))
#define VF_COMMON_REQ VF_COMMON_REQ_(32)

#define VF_GHOST_FRAME vfG

/* identity assignment: re-establishes the points-to set of ctx after a havoc.  The last
 * branch is unreachable by the loop invariant (checked); it is asserted, not just assumed. */
#define VF_PIN(p)                                                                                  \
        do {                                                                                       \
                if ((p) == g_A)                                                                    \
                        (p) = g_A;                                                                 \
                else if ((p) == g_B)                                                               \
                        (p) = g_B;                                                                 \
                else {                                                                             \
                        __CPROVER_assert(0, "vf_pin: held context is role A or role B");          \
                        __CPROVER_assume(0);                                                       \
                }                                                                                  \
        } while (0)

#define VF_C_RESUBMIT                                                                              \
        VF_COMMON_REQ_(33)                                                                         \
        __CPROVER_requires(ctx == g_held && (ctx == NULL || ctx == g_A || ctx == g_B))             \
        __CPROVER_requires(ctx == g_A ==> VF_HELD_A)                                               \
        __CPROVER_requires(ctx == g_B ==> VF_HELD_B)                                               \
        __CPROVER_requires(gA.inflight ==> VF_FLIGHT_A)                                            \
        __CPROVER_assigns(__CPROVER_object_whole(mgr), __CPROVER_object_whole(g_A),                \
                          __CPROVER_object_whole(g_B), VF_GHOST_FRAME)                             \
        __CPROVER_ensures(__CPROVER_return_value == g_held)                                        \
        __CPROVER_ensures(__CPROVER_return_value == NULL || __CPROVER_return_value == g_A ||       \
                          __CPROVER_return_value == g_B)                                           \
        VF_ENS_RETURNED(__CPROVER_return_value == g_A, g_A, gA, g_bufA, g_lenA)                    \
        VF_ENS_RETURNED(__CPROVER_return_value == g_B, g_B, gB, g_bufB, g_lenB)                    \
        __CPROVER_ensures((gA.inflight != 0) == ((ctx == g_A || (__CPROVER_old(gA.inflight) != 0)) &&            \
                                          __CPROVER_return_value != g_A))                          \
        __CPROVER_ensures(gA.inflight ==> VF_FLIGHT_A)                                             \
        __CPROVER_ensures(__CPROVER_return_value == g_A ==>                                        \
                          (ctx == g_A || (__CPROVER_old(gA.inflight) != 0)))                       \
        __CPROVER_ensures(g_A->error == __CPROVER_old(g_A->error) &&                               \
                          g_A->total_length == __CPROVER_old(g_A->total_length))                   \
        __CPROVER_ensures(g_n < g_lanes)                                                           \
        __CPROVER_ensures(__CPROVER_return_value != NULL ==> g_n == __CPROVER_old(g_n))            \
        __CPROVER_ensures((__CPROVER_return_value == NULL && ctx != NULL) ==>                      \
                          g_n == __CPROVER_old(g_n) + 1)                                           \
        __CPROVER_ensures(VF_W((__CPROVER_return_value == NULL && ctx != NULL) ==>                 \
                          g_work + 1 <= __CPROVER_old(g_work) + VF_WORK_OLD_OF(ctx)))              \
        __CPROVER_ensures(VF_W(g_work <= __CPROVER_old(g_work) + VF_WORK_OLD_OF(ctx)))

#define VF_L_RESUBMIT                                                                              \
        __CPROVER_assigns(ctx VF_LOOP_EXTRA, __CPROVER_object_whole(mgr), __CPROVER_object_whole(g_A),           \
                          __CPROVER_object_whole(g_B), VF_GHOST_FRAME)                             \
        __CPROVER_loop_invariant(ctx == g_held && (ctx == NULL || ctx == g_A || ctx == g_B))       \
        __CPROVER_loop_invariant(ctx == g_A ==> VF_HELD_A)                                         \
        __CPROVER_loop_invariant(ctx == g_B ==> VF_HELD_B)                                         \
        __CPROVER_loop_invariant(gA.inflight ==> VF_FLIGHT_A)                                      \
        __CPROVER_loop_invariant((gA.inflight != 0) == (((__CPROVER_loop_entry(ctx) == g_A) ||            \
                                                  (__CPROVER_loop_entry(gA.inflight) != 0)) &&            \
                                                 ctx != g_A))                                      \
        __CPROVER_loop_invariant(ctx == g_A ==> ((__CPROVER_loop_entry(ctx) == g_A) ||             \
                                                 (__CPROVER_loop_entry(gA.inflight) != 0)))        \
        __CPROVER_loop_invariant(g_A->error == __CPROVER_loop_entry(g_A->error) &&                 \
                                 g_A->total_length == __CPROVER_loop_entry(g_A->total_length))     \
        __CPROVER_loop_invariant(g_n < g_lanes && VF_W(g_work < (1ull << 34)))                           \
        __CPROVER_loop_invariant(ctx != NULL ==> g_n == __CPROVER_loop_entry(g_n))                 \
        __CPROVER_loop_invariant((ctx == NULL && __CPROVER_loop_entry(ctx) != NULL) ==>            \
                                 g_n == __CPROVER_loop_entry(g_n) + 1)                             \
        __CPROVER_loop_invariant(VF_W((ctx == NULL && __CPROVER_loop_entry(ctx) != NULL) ==>       \
                                 g_work + 1 <= __CPROVER_loop_entry(g_work) +                      \
                                                       VF_WORK_LE_OF(__CPROVER_loop_entry(ctx))))  \
        __CPROVER_loop_invariant(VF_W(g_work + VF_WORK_OF(ctx) <=                                  \
                                 __CPROVER_loop_entry(g_work) +                                    \
                                         VF_WORK_LE_OF(__CPROVER_loop_entry(ctx))))                \
        VF_DECREASES(g_work + VF_WORK_OF(ctx))

#define VF_REJ_FLAGS   ((uint32_t) flags & ~3u)
#define VF_REJ_PROC    (!VF_REJ_FLAGS && (VF_ST(ctx) & VF_P))
#define VF_REJ_COMPL                                                                               \
        (!VF_REJ_FLAGS && !VF_REJ_PROC && (VF_ST(ctx) & VF_C) && !((uint32_t) flags & 1u))
#define VF_REJECTED    (VF_REJ_FLAGS || VF_REJ_PROC || VF_REJ_COMPL)
#define VF_OST         ((uint32_t) __CPROVER_old(ctx->status))
#define VF_REJ_PROC_O  (!VF_REJ_FLAGS && (VF_OST & VF_P))
#define VF_REJ_COMPL_O (!VF_REJ_FLAGS && !VF_REJ_PROC_O && (VF_OST & VF_C) && !((uint32_t) flags & 1u))
#define VF_REJECTED_O  (VF_REJ_FLAGS || VF_REJ_PROC_O || VF_REJ_COMPL_O)
#define VF_FIRST       (((uint32_t) flags & 1u) != 0)
#define VF_LASTF       (((uint32_t) flags & 2u) != 0)
#define VF_T0          (VF_FIRST ? 0ull : ctx->total_length)
#define VF_T0_O        (VF_FIRST ? 0ull : __CPROVER_old(ctx->total_length))

#define VF_C_SUBMIT                                                                                \
        VF_COMMON_REQ                                                                              \
        __CPROVER_requires(ctx == g_A && g_held == g_A)                                            \
        __CPROVER_requires((const uint8_t *) buffer == g_bufA && len == g_lenA)                    \
        __CPROVER_requires(VF_UD(g_A, gA))                                                         \
        /* API rule: the PROCESSING bit is set exactly while the job is inside the manager */      \
        __CPROVER_requires((gA.inflight != 0) == ((VF_ST(ctx) & VF_P) != 0))                              \
        __CPROVER_requires(gA.inflight ==> VF_FLIGHT_A)                                            \
        __CPROVER_requires(!VF_REJECTED ==> (                                                      \
                (VF_ST(ctx) == 0 || VF_ST(ctx) == VF_C) && VF_T0 + len < VF_MAXTOT && !gA.swapped && \
                (gA.last != 0) == VF_LASTF &&                                                      \
                (VF_FIRST ? (gA.hashed == 0 && VF_T(gA.dw == vf_iv[g_W]))                            \
                          : (VF_ST(ctx) == 0 && VF_LAYOUT(ctx, gA.hashed, gA, g_bufA, 0u) &&       \
                             VF_ILEN(ctx) == 0 &&                                                  \
                             VF_T(ctx->job.result_digest[g_W] == gA.dw))) &&                       \
                /* definition of the stream: the new buffer holds stream bytes [T0, T0+len) */     \
                VF_T((g_P >= VF_T0 && g_P < VF_T0 + len) ==>                                       \
                     (gA.o == g_P - VF_T0 && g_bufA[gA.o] == gA.byteP))))                          \
        __CPROVER_assigns(VF_REJECTED : ctx->error)                                                \
        __CPROVER_assigns(!VF_REJECTED : __CPROVER_object_whole(mgr), __CPROVER_object_whole(g_A), \
                          __CPROVER_object_whole(g_B), VF_GHOST_FRAME)                             \
        /* C11: rejection */                                                                       \
        __CPROVER_ensures(VF_REJECTED_O ==> __CPROVER_return_value == ctx)                         \
        __CPROVER_ensures(VF_REJ_FLAGS ==> (int) ctx->error == -1)                                 \
        __CPROVER_ensures(VF_REJ_PROC_O ==> (int) ctx->error == -2)                                \
        __CPROVER_ensures(VF_REJ_COMPL_O ==> (int) ctx->error == -3)                               \
        /* accepted */                                                                             \
        __CPROVER_ensures(!VF_REJECTED_O ==> (int) ctx->error == 0)                                \
        __CPROVER_ensures(!VF_REJECTED_O ==> ctx->total_length == VF_T0_O + len)                   \
        __CPROVER_ensures(!VF_REJECTED_O ==> __CPROVER_return_value == g_held)                     \
        __CPROVER_ensures(!VF_REJECTED_O ==>                                                       \
                          (__CPROVER_return_value == NULL || __CPROVER_return_value == g_A ||      \
                           __CPROVER_return_value == g_B))                                         \
        __CPROVER_ensures(!VF_REJECTED_O ==> (gA.inflight != 0) == (__CPROVER_return_value != g_A))       \
        __CPROVER_ensures(!VF_REJECTED_O ==> g_n < g_lanes)                                        \
        VF_ENS_RETURNED(!VF_REJECTED_O && __CPROVER_return_value == g_A, g_A, gA, g_bufA, g_lenA)  \
        VF_ENS_RETURNED(!VF_REJECTED_O && __CPROVER_return_value == g_B, g_B, gB, g_bufB, g_lenB)  \
        __CPROVER_ensures((!VF_REJECTED_O && gA.inflight) ==> VF_FLIGHT_A)

#define VF_C_FLUSH                                                                                 \
        VF_COMMON_REQ                                                                              \
        __CPROVER_requires(g_held == NULL && !gA.inflight)                                         \
        __CPROVER_assigns(__CPROVER_object_whole(mgr), __CPROVER_object_whole(g_B),                \
                          __CPROVER_object_whole(g_A), VF_GHOST_FRAME)                             \
        __CPROVER_ensures(__CPROVER_return_value == NULL || __CPROVER_return_value == g_B)         \
        __CPROVER_ensures(__CPROVER_return_value == g_held)                                        \
        __CPROVER_ensures((__CPROVER_return_value == NULL) == (__CPROVER_old(g_n) == 0))           \
        __CPROVER_ensures(__CPROVER_return_value == NULL ? g_n == 0                                \
                                                         : g_n + 1 == __CPROVER_old(g_n))          \
        VF_ENS_RETURNED(__CPROVER_return_value == g_B, g_B, gB, g_bufB, g_lenB)

#define VF_L_FLUSH                                                                                 \
        __CPROVER_assigns(ctx, __CPROVER_object_whole(mgr), __CPROVER_object_whole(g_B),           \
                          __CPROVER_object_whole(g_A), VF_GHOST_FRAME)                             \
        __CPROVER_loop_invariant(g_held == NULL && !gA.inflight &&                                 \
                                 g_n == __CPROVER_loop_entry(g_n) && g_n < g_lanes &&              \
                                 VF_W(g_work < (1ull << 32)))                                            \
        VF_DECREASES(g_work)

#endif
