/* base_diff.c - BOUNDED native check of the portable C family (*_ctx_base.c) end to end, compiled at the optimisation
 * level given by the driver (-O1 and -O2: guards the assumption that gcc compiles the type-punned padding stores the way
 * CBMC reads them).  Random messages 0..LMAX bytes, random FIRST/UPDATE/LAST segmentation (incl. empty segments) through
 * _X_ctx_mgr_submit_base; reference = the standard's padding + the round-stepper spec (spec/round_specs.h). */
#include <stdio.h>
#include <stdlib.h>
#include <string.h>
#include <stdint.h>
#include "round_specs.h"
#if defined(VF_ALG_SHA1)
#include "sha1_mb.h"
#define A sha1
#define CTX ISAL_SHA1_HASH_CTX
#define MGR ISAL_SHA1_HASH_CTX_MGR
static const S_WORD IV[5] = { 0x67452301u, 0xefcdab89u, 0x98badcfeu, 0x10325476u, 0xc3d2e1f0u };
#define LENBYTES 8
#define LEN_BE 1
#elif defined(VF_ALG_SHA256)
#include "sha256_mb.h"
#define A sha256
#define CTX ISAL_SHA256_HASH_CTX
#define MGR ISAL_SHA256_HASH_CTX_MGR
static const S_WORD IV[8] = { 0x6a09e667u, 0xbb67ae85u, 0x3c6ef372u, 0xa54ff53au, 0x510e527fu, 0x9b05688cu, 0x1f83d9abu, 0x5be0cd19u };
#define LENBYTES 8
#define LEN_BE 1
#elif defined(VF_ALG_SHA512)
#include "sha512_mb.h"
#define A sha512
#define CTX ISAL_SHA512_HASH_CTX
#define MGR ISAL_SHA512_HASH_CTX_MGR
static const S_WORD IV[8] = { 0x6a09e667f3bcc908ull, 0xbb67ae8584caa73bull, 0x3c6ef372fe94f82bull, 0xa54ff53a5f1d36f1ull,
                              0x510e527fade682d1ull, 0x9b05688c2b3e6c1full, 0x1f83d9abfb41bd6bull, 0x5be0cd19137e2179ull };
#define LENBYTES 16
#define LEN_BE 1
#elif defined(VF_ALG_MD5)
#include "md5_mb.h"
#define A md5
#define CTX ISAL_MD5_HASH_CTX
#define MGR ISAL_MD5_HASH_CTX_MGR
static const S_WORD IV[4] = { 0x67452301u, 0xefcdab89u, 0x98badcfeu, 0x10325476u };
#define LENBYTES 8
#define LEN_BE 0
#elif defined(VF_ALG_SM3)
#include "sm3_mb.h"
#define A sm3
#define CTX ISAL_SM3_HASH_CTX
#define MGR ISAL_SM3_HASH_CTX_MGR
static const S_WORD IV[8] = { 0x7380166fu, 0x4914b2b9u, 0x172442d7u, 0xda8a0600u, 0xa96f30bcu, 0x163138aau, 0xe38dee4du, 0xb0fb0e4eu };
#define LENBYTES 8
#define LEN_BE 1
#endif
#define CAT_(a, b, c) a##b##c
#define CAT(a, b, c) CAT_(a, b, c)
CTX *CAT(_, A, _ctx_mgr_submit_base)(MGR *, CTX *, const void *, uint32_t, ISAL_HASH_CTX_FLAG);
void CAT(_, A, _ctx_mgr_init_base)(MGR *);
static uint64_t x = 88172645463325252ull;
static uint64_t rnd(void) { x ^= x << 13; x ^= x >> 7; x ^= x << 17; return x; }
static void ref_hash(const uint8_t *m, uint64_t len, S_WORD *H)
{
        static uint8_t p[4096 + 2 * S_BLOCK];
        uint64_t n = len;
        memcpy(p, m, len);
        p[n++] = 0x80;
        while ((n + LENBYTES) % S_BLOCK) p[n++] = 0;
        uint64_t bits = len * 8;
        for (int i = 0; i < LENBYTES; i++) {
                int sh = LEN_BE ? 8 * (LENBYTES - 1 - i) : 8 * i;
                p[n++] = sh < 64 ? (uint8_t) (bits >> sh) : 0;
        }
        for (int k = 0; k < S_NS; k++) H[k] = IV[k];
        for (uint64_t off = 0; off < n; off += S_BLOCK) {
                vf_spec_begin(p + off, H);
                for (int t = 0; t < S_NR; t++) vf_spec_round();
                for (int k = 0; k < S_NS; k++) H[k] = S_FINAL(k);
        }
}
int main(int argc, char **argv)
{
        unsigned lmax = argc > 1 ? atoi(argv[1]) : 700, reps = argc > 2 ? atoi(argv[2]) : 2;
        if (argc > 3) x ^= strtoull(argv[3], 0, 0) * 0x9E3779B97F4A7C15ull;
        static uint8_t msg[4096];
        MGR *mgr = 0;
        if (posix_memalign((void **) &mgr, 64, sizeof *mgr)) return 77;
        CTX ctx;
        unsigned long cases = 0;
        for (unsigned rep = 0; rep < reps; rep++)
                for (unsigned len = 0; len <= lmax && len <= 4000; len++) {
                        for (unsigned i = 0; i < len; i++) msg[i] = (uint8_t) rnd();
                        S_WORD H[S_NS];
                        ref_hash(msg, len, H);
                        memset(&ctx, 0xa5, sizeof ctx);
                        CAT(_, A, _ctx_mgr_init_base)(mgr);
                        isal_hash_ctx_init(&ctx);
                        unsigned pos = 0, nseg = 0;
                        int single = (rnd() % 4 == 0);
                        if (single) {
                                CAT(_, A, _ctx_mgr_submit_base)(mgr, &ctx, msg, len, ISAL_HASH_ENTIRE);
                        } else {
                                unsigned n = rnd() % (len + 1);
                                CAT(_, A, _ctx_mgr_submit_base)(mgr, &ctx, msg, n, ISAL_HASH_FIRST); pos = n;
                                while (pos < len && rnd() % 5) {
                                        n = rnd() % 3 == 0 ? 0 : rnd() % (len - pos + 1);
                                        CAT(_, A, _ctx_mgr_submit_base)(mgr, &ctx, msg + pos, n, ISAL_HASH_UPDATE); pos += n; nseg++;
                                }
                                CAT(_, A, _ctx_mgr_submit_base)(mgr, &ctx, msg + pos, len - pos, ISAL_HASH_LAST);
                        }
                        cases++;
                        int bad = ctx.status != ISAL_HASH_CTX_STS_COMPLETE || ctx.error != 0;
                        for (int k = 0; k < S_NS && !bad; k++) {
                                S_WORD got = ctx.job.result_digest[k];
#if defined(VF_ALG_SM3)
                                got = __builtin_bswap32(got);
#endif
                                if (got != H[k]) bad = 1;
                        }
                        if (bad) {
                                printf("DISAGREE base family: len=%u %s segments=%u status=%d error=%d: digest differs from the standard\ncases=%lu\n", len,
                                       single ? "ENTIRE" : "FIRST/UPDATE/LAST", nseg, (int) ctx.status, (int) ctx.error, cases);
                                return 1;
                        }
                }
        printf("AGREE cases=%lu\n", cases);
        return 0;
}
