/* mur_diff.c - BOUNDED native check for C10 on the real code (all library objects linked in):
 * isal_mh_sha1_murmur3_x64_128_{init,update,finalize} over random streams, seeds and segmentations
 *   murmur half  == MurmurHash3_x64_128 (Appleby's public-domain reference, re-typed below), both state words = seed
 *   mh_sha1 half == the stand-alone isal_mh_sha1 of the same stream.
 * Lengths 0..LMAX (every residue mod 16 and mod 1024 boundary cases).  Prints the first disagreement. */
#include <stdio.h>
#include <stdlib.h>
#include <string.h>
#include <stdint.h>
#include "mh_sha1_murmur3_x64_128.h"
#include "mh_sha1.h"
static uint64_t x = 88172645463325252ull;
static uint64_t rnd(void) { x ^= x << 13; x ^= x >> 7; x ^= x << 17; return x; }
#define ROTL64(v, r) (((v) << (r)) | ((v) >> (64 - (r))))
static uint64_t fmix64(uint64_t k) { k ^= k >> 33; k *= 0xff51afd7ed558ccdull; k ^= k >> 33; k *= 0xc4ceb9fe1a85ec53ull; k ^= k >> 33; return k; }
static void ref_murmur(const uint8_t *data, uint32_t len, uint64_t seed, uint64_t out[2])
{
        const uint64_t c1 = 0x87c37b91114253d5ull, c2 = 0x4cf5ad432745937full;
        uint64_t h1 = seed, h2 = seed;
        uint32_t nblocks = len / 16;
        for (uint32_t i = 0; i < nblocks; i++) {
                uint64_t k1, k2;
                memcpy(&k1, data + 16 * i, 8); memcpy(&k2, data + 16 * i + 8, 8);
                k1 *= c1; k1 = ROTL64(k1, 31); k1 *= c2; h1 ^= k1;
                h1 = ROTL64(h1, 27); h1 += h2; h1 = h1 * 5 + 0x52dce729;
                k2 *= c2; k2 = ROTL64(k2, 33); k2 *= c1; h2 ^= k2;
                h2 = ROTL64(h2, 31); h2 += h1; h2 = h2 * 5 + 0x38495ab5;
        }
        const uint8_t *tail = data + 16 * nblocks;
        uint64_t k1 = 0, k2 = 0;
        switch (len & 15) {
        case 15: k2 ^= (uint64_t) tail[14] << 48; /* fall through */
        case 14: k2 ^= (uint64_t) tail[13] << 40; /* fall through */
        case 13: k2 ^= (uint64_t) tail[12] << 32; /* fall through */
        case 12: k2 ^= (uint64_t) tail[11] << 24; /* fall through */
        case 11: k2 ^= (uint64_t) tail[10] << 16; /* fall through */
        case 10: k2 ^= (uint64_t) tail[9] << 8;   /* fall through */
        case 9:  k2 ^= (uint64_t) tail[8];
                 k2 *= c2; k2 = ROTL64(k2, 33); k2 *= c1; h2 ^= k2; /* fall through */
        case 8:  k1 ^= (uint64_t) tail[7] << 56; /* fall through */
        case 7:  k1 ^= (uint64_t) tail[6] << 48; /* fall through */
        case 6:  k1 ^= (uint64_t) tail[5] << 40; /* fall through */
        case 5:  k1 ^= (uint64_t) tail[4] << 32; /* fall through */
        case 4:  k1 ^= (uint64_t) tail[3] << 24; /* fall through */
        case 3:  k1 ^= (uint64_t) tail[2] << 16; /* fall through */
        case 2:  k1 ^= (uint64_t) tail[1] << 8;  /* fall through */
        case 1:  k1 ^= (uint64_t) tail[0];
                 k1 *= c1; k1 = ROTL64(k1, 31); k1 *= c2; h1 ^= k1;
        }
        h1 ^= len; h2 ^= len;
        h1 += h2; h2 += h1; h1 = fmix64(h1); h2 = fmix64(h2); h1 += h2; h2 += h1;
        out[0] = h1; out[1] = h2;
}
int main(int argc, char **argv)
{
        unsigned lmax = argc > 1 ? atoi(argv[1]) : 2200, reps = argc > 2 ? atoi(argv[2]) : 2;
        if (argc > 3) x ^= strtoull(argv[3], 0, 0) * 0x9E3779B97F4A7C15ull;
        static uint8_t S[70000];
        struct isal_mh_sha1_murmur3_x64_128_ctx *ctx = malloc(sizeof *ctx);
        struct isal_mh_sha1_ctx *c1 = malloc(sizeof *c1);
        unsigned long cases = 0;
        for (unsigned rep = 0; rep < reps; rep++)
                for (unsigned len = 0; len <= lmax; len += (len < 1100 || rep ? 1 : 37)) {
                        uint64_t seed = rnd();
                        unsigned off = rnd() % 64;
                        for (unsigned i = 0; i < len; i++) S[off + i] = (uint8_t) rnd();
                        uint32_t d_sha[5], d_ref[5]; uint64_t d_mur[2], r_mur[2];
                        memset(ctx, 0xa5, sizeof *ctx); memset(c1, 0x5a, sizeof *c1);
                        if (isal_mh_sha1_murmur3_x64_128_init(ctx, seed)) { printf("init failed\n"); return 1; }
                        unsigned pos = 0;
                        while (pos < len) { /* random segmentation, including empty pieces */
                                unsigned n = rnd() % 4 == 0 ? rnd() % 17 : rnd() % (len - pos + 1);
                                if (n > len - pos) n = len - pos;
                                if (isal_mh_sha1_murmur3_x64_128_update(ctx, S + off + pos, n)) { printf("update failed\n"); return 1; }
                                pos += n;
                        }
                        if (isal_mh_sha1_murmur3_x64_128_finalize(ctx, d_sha, d_mur)) { printf("finalize failed\n"); return 1; }
                        ref_murmur(S + off, len, seed, r_mur);
                        isal_mh_sha1_init(c1); isal_mh_sha1_update(c1, S + off, len); isal_mh_sha1_finalize(c1, d_ref);
                        cases++;
                        if (memcmp(d_mur, r_mur, 16)) {
                                printf("DISAGREE murmur: len=%u (len%%16=%u) seed=%#llx got %016llx%016llx reference %016llx%016llx\n", len, len & 15,
                                       (unsigned long long) seed, (unsigned long long) d_mur[0], (unsigned long long) d_mur[1],
                                       (unsigned long long) r_mur[0], (unsigned long long) r_mur[1]);
                                printf("cases=%lu\n", cases);
                                return 1;
                        }
                        if (memcmp(d_sha, d_ref, 20)) {
                                printf("DISAGREE mh_sha1 half: len=%u stitched %08x.. stand-alone %08x..\ncases=%lu\n", len, d_sha[0], d_ref[0], cases);
                                return 1;
                        }
                }
        printf("AGREE cases=%lu\n", cases);
        return 0;
}
