/* gcm_guard.c - BOUNDED native check for C08 on the NASM AES-GCM code (all four x86 families, called through their
 * internal entry points, so that families the dispatcher does not pick on this host are exercised too):
 * every caller-supplied range (data in, data out, 12-byte IV, AAD, tag) is placed so that it ENDS exactly at an unmapped
 * page and, in a second pass, BEGINS exactly after one; an access outside the range faults and is reported with the
 * failing input.  Inputs must come back unmodified, outputs must equal the same operation on roomy buffers.
 * Covered: one-shot enc/dec (len 0..LMAX, several AAD lengths, tag 8/12/16) and init / update(p) / update(L) / finalize
 * for all p, L in 0..SMAX (partial 16-byte blocks carried between calls); the _nt variants under their documented 64-byte rule. */
#define _GNU_SOURCE
#include <stdio.h>
#include <stdlib.h>
#include <string.h>
#include <stdint.h>
#include <signal.h>
#include <setjmp.h>
#include <sys/mman.h>
#include <unistd.h>
#include "aes_gcm.h"

#define FAMS(X) X(sse) X(avx_gen2) X(avx_gen4) X(vaes_avx512)
typedef struct isal_gcm_key_data KD;
typedef struct isal_gcm_context_data CD;
typedef void (*oneshot_fn)(const KD *, CD *, uint8_t *, const uint8_t *, uint64_t, uint8_t *, const uint8_t *, uint64_t, uint8_t *, uint64_t);
typedef void (*init_fn)(const KD *, CD *, uint8_t *, const uint8_t *, uint64_t);
typedef void (*upd_fn)(const KD *, CD *, uint8_t *, const uint8_t *, uint64_t);
typedef void (*fin_fn)(const KD *, CD *, uint8_t *, uint64_t);
typedef void (*pre_fn)(KD *);
#define DECL(f)                                                                                                                  \
        void _aes_gcm_enc_128_##f(const KD *, CD *, uint8_t *, const uint8_t *, uint64_t, uint8_t *, const uint8_t *, uint64_t, uint8_t *, uint64_t); \
        void _aes_gcm_dec_128_##f(const KD *, CD *, uint8_t *, const uint8_t *, uint64_t, uint8_t *, const uint8_t *, uint64_t, uint8_t *, uint64_t); \
        void _aes_gcm_enc_256_##f(const KD *, CD *, uint8_t *, const uint8_t *, uint64_t, uint8_t *, const uint8_t *, uint64_t, uint8_t *, uint64_t); \
        void _aes_gcm_dec_256_##f(const KD *, CD *, uint8_t *, const uint8_t *, uint64_t, uint8_t *, const uint8_t *, uint64_t, uint8_t *, uint64_t); \
        void _aes_gcm_init_128_##f(const KD *, CD *, uint8_t *, const uint8_t *, uint64_t);                                      \
        void _aes_gcm_init_256_##f(const KD *, CD *, uint8_t *, const uint8_t *, uint64_t);                                      \
        void _aes_gcm_enc_128_update_##f(const KD *, CD *, uint8_t *, const uint8_t *, uint64_t);                                \
        void _aes_gcm_dec_128_update_##f(const KD *, CD *, uint8_t *, const uint8_t *, uint64_t);                                \
        void _aes_gcm_enc_256_update_##f(const KD *, CD *, uint8_t *, const uint8_t *, uint64_t);                                \
        void _aes_gcm_dec_256_update_##f(const KD *, CD *, uint8_t *, const uint8_t *, uint64_t);                                \
        void _aes_gcm_enc_128_finalize_##f(const KD *, CD *, uint8_t *, uint64_t);                                               \
        void _aes_gcm_dec_128_finalize_##f(const KD *, CD *, uint8_t *, uint64_t);                                               \
        void _aes_gcm_enc_256_finalize_##f(const KD *, CD *, uint8_t *, uint64_t);                                               \
        void _aes_gcm_dec_256_finalize_##f(const KD *, CD *, uint8_t *, uint64_t);                                               \
        void _aes_gcm_precomp_128_##f(KD *);                                                                                     \
        void _aes_gcm_precomp_256_##f(KD *);
FAMS(DECL)
#define DECLNT(f)                                                                                                                \
        void _aes_gcm_enc_128_##f##_nt(const KD *, CD *, uint8_t *, const uint8_t *, uint64_t, uint8_t *, const uint8_t *, uint64_t, uint8_t *, uint64_t); \
        void _aes_gcm_dec_128_##f##_nt(const KD *, CD *, uint8_t *, const uint8_t *, uint64_t, uint8_t *, const uint8_t *, uint64_t, uint8_t *, uint64_t); \
        void _aes_gcm_enc_256_##f##_nt(const KD *, CD *, uint8_t *, const uint8_t *, uint64_t, uint8_t *, const uint8_t *, uint64_t, uint8_t *, uint64_t); \
        void _aes_gcm_dec_256_##f##_nt(const KD *, CD *, uint8_t *, const uint8_t *, uint64_t, uint8_t *, const uint8_t *, uint64_t, uint8_t *, uint64_t); \
        void _aes_gcm_enc_128_update_##f##_nt(const KD *, CD *, uint8_t *, const uint8_t *, uint64_t);                           \
        void _aes_gcm_dec_128_update_##f##_nt(const KD *, CD *, uint8_t *, const uint8_t *, uint64_t);                           \
        void _aes_gcm_enc_256_update_##f##_nt(const KD *, CD *, uint8_t *, const uint8_t *, uint64_t);                           \
        void _aes_gcm_dec_256_update_##f##_nt(const KD *, CD *, uint8_t *, const uint8_t *, uint64_t);
FAMS(DECLNT)
struct fam {
        const char *name;
        oneshot_fn one[2][2]; /* [keysize][dec] */
        init_fn init[2];
        upd_fn upd[2][2];
        fin_fn fin[2][2];
        pre_fn pre[2];
        oneshot_fn one_nt[2][2];
        upd_fn upd_nt[2][2];
};
#define ENTRY(f)                                                                                                                 \
        { #f, { { _aes_gcm_enc_128_##f, _aes_gcm_dec_128_##f }, { _aes_gcm_enc_256_##f, _aes_gcm_dec_256_##f } },                \
          { _aes_gcm_init_128_##f, _aes_gcm_init_256_##f },                                                                      \
          { { _aes_gcm_enc_128_update_##f, _aes_gcm_dec_128_update_##f }, { _aes_gcm_enc_256_update_##f, _aes_gcm_dec_256_update_##f } }, \
          { { _aes_gcm_enc_128_finalize_##f, _aes_gcm_dec_128_finalize_##f }, { _aes_gcm_enc_256_finalize_##f, _aes_gcm_dec_256_finalize_##f } }, \
          { _aes_gcm_precomp_128_##f, _aes_gcm_precomp_256_##f },                                                                \
          { { _aes_gcm_enc_128_##f##_nt, _aes_gcm_dec_128_##f##_nt }, { _aes_gcm_enc_256_##f##_nt, _aes_gcm_dec_256_##f##_nt } },  \
          { { _aes_gcm_enc_128_update_##f##_nt, _aes_gcm_dec_128_update_##f##_nt }, { _aes_gcm_enc_256_update_##f##_nt, _aes_gcm_dec_256_update_##f##_nt } } },
static struct fam fams[] = { FAMS(ENTRY) };

static sigjmp_buf jb;
static volatile void *fault_addr;
static void on_segv(int sig, siginfo_t *si, void *u) { (void) sig; (void) u; fault_addr = si->si_addr; siglongjmp(jb, 1); }

/* a region of RW pages between two PROT_NONE pages */
struct region { uint8_t *lo, *hi; };
static struct region mk(void)
{
        long ps = sysconf(_SC_PAGESIZE);
        uint8_t *m = mmap(0, 4 * ps, PROT_READ | PROT_WRITE, MAP_PRIVATE | MAP_ANONYMOUS, -1, 0);
        if (m == MAP_FAILED) exit(77);
        mprotect(m, ps, PROT_NONE);
        mprotect(m + 3 * ps, ps, PROT_NONE);
        struct region r = { m + ps, m + 3 * ps };
        return r;
}
/* place n bytes at the end (mode 0) or at the start (mode 1) of the region */
static uint8_t *place(struct region r, size_t n, int mode) { return mode ? r.lo : r.hi - n; }
static uint64_t x = 88172645463325252ull;
static uint64_t rnd(void) { x ^= x << 13; x ^= x >> 7; x ^= x << 17; return x; }
static int supported(const char *f)
{
        __builtin_cpu_init();
        if (!__builtin_cpu_supports("aes") || !__builtin_cpu_supports("pclmul") || !__builtin_cpu_supports("sse4.1")) return 0;
        if (!strcmp(f, "sse")) return 1;
        if (!strcmp(f, "avx_gen2")) return __builtin_cpu_supports("avx");
        if (!strcmp(f, "avx_gen4")) return __builtin_cpu_supports("avx2");
        return __builtin_cpu_supports("avx512f") && __builtin_cpu_supports("avx512bw") && __builtin_cpu_supports("avx512vl") &&
               __builtin_cpu_supports("vaes") && __builtin_cpu_supports("vpclmulqdq");
}
int main(int argc, char **argv)
{
        unsigned lmax = argc > 1 ? atoi(argv[1]) : 80, smax = argc > 2 ? atoi(argv[2]) : 40;
        if (argc > 3) x ^= strtoull(argv[3], 0, 0) * 0x9E3779B97F4A7C15ull;
        struct sigaction sa; memset(&sa, 0, sizeof sa); sa.sa_sigaction = on_segv; sa.sa_flags = SA_SIGINFO | SA_NODEFER;
        sigaction(SIGSEGV, &sa, 0); sigaction(SIGBUS, &sa, 0);
        struct region R_in = mk(), R_out = mk(), R_iv = mk(), R_aad = mk(), R_tag = mk(), R_in2 = mk(), R_out2 = mk();
        static KD kd __attribute__((aligned(64)));
        static CD cd, cd2;
        static uint8_t key[32], ref_out[512], ref_tag[16], src[512], aadv[64], ivv[12], keep[512];
        unsigned long cases = 0; unsigned nf = 0;
        const uint64_t aads[5] = { 0, 1, 12, 16, 20 }, tags[3] = { 8, 12, 16 };
        for (unsigned fi = 0; fi < sizeof fams / sizeof fams[0]; fi++) {
                struct fam *F = &fams[fi];
                if (!supported(F->name)) { printf("skip %s (CPU)\n", F->name); continue; }
                nf++;
                for (int ks = 0; ks < 2; ks++) {
                        for (unsigned i = 0; i < 32; i++) key[i] = (uint8_t) rnd();
                        if (ks) isal_aes_gcm_pre_256(key, &kd); else isal_aes_gcm_pre_128(key, &kd);
                        F->pre[ks](&kd); /* hash-key table in this family's layout */
                        for (int dec = 0; dec < 2; dec++)
                                for (int mode = 0; mode < 2; mode++) {
                                        /* A. one shot */
                                        for (unsigned len = 0; len <= lmax; len++)
                                                for (int ai = 0; ai < 5; ai++) {
                                                        uint64_t al = aads[ai], tl = tags[(len + ai) % 3];
                                                        for (unsigned i = 0; i < len; i++) src[i] = (uint8_t) rnd();
                                                        for (unsigned i = 0; i < al; i++) aadv[i] = (uint8_t) rnd();
                                                        for (unsigned i = 0; i < 12; i++) ivv[i] = (uint8_t) rnd();
                                                        uint8_t *in = place(R_in, len, mode), *out = place(R_out, len, mode), *iv = place(R_iv, 12, mode),
                                                                *aad = place(R_aad, al, mode), *tag = place(R_tag, tl, mode);
                                                        memcpy(in, src, len); memcpy(iv, ivv, 12); memcpy(aad, aadv, al);
                                                        F->one[ks][dec](&kd, &cd2, ref_out, src, len, ivv, aadv, al, ref_tag, tl); /* roomy buffers */
                                                        cases++;
                                                        if (sigsetjmp(jb, 1)) {
                                                                printf("FAULT %s one-shot %s-%d len=%u aad=%llu tag=%llu placement=%s: access at %p outside the caller's ranges "
                                                                       "(in %p..+%u, out %p, iv %p, aad %p, tag %p)\ncases=%lu\n", F->name, dec ? "dec" : "enc", ks ? 256 : 128, len,
                                                                       (unsigned long long) al, (unsigned long long) tl, mode ? "begins-after-unmapped" : "ends-at-unmapped",
                                                                       (void *) fault_addr, in, len, out, iv, aad, tag, cases);
                                                                return 1;
                                                        }
                                                        F->one[ks][dec](&kd, &cd, out, in, len, iv, aad, al, tag, tl);
                                                        if (memcmp(in, src, len) || memcmp(iv, ivv, 12) || memcmp(aad, aadv, al)) {
                                                                printf("MODIFIED-INPUT %s one-shot %s-%d len=%u aad=%llu\ncases=%lu\n", F->name, dec ? "dec" : "enc", ks ? 256 : 128, len, (unsigned long long) al, cases);
                                                                return 1;
                                                        }
                                                        if (memcmp(out, ref_out, len) || memcmp(tag, ref_tag, tl)) {
                                                                printf("DIFFERENT-RESULT %s one-shot %s-%d len=%u aad=%llu (placement changes the result)\ncases=%lu\n", F->name, dec ? "dec" : "enc", ks ? 256 : 128, len, (unsigned long long) al, cases);
                                                                return 1;
                                                        }
                                                }
                                        /* B. streaming with a partial block carried over */
                                        for (unsigned p = 0; p <= smax; p++)
                                                for (unsigned L = 0; L <= smax; L++) {
                                                        uint64_t al = aads[(p + L) % 5], tl = tags[(p + L) % 3];
                                                        for (unsigned i = 0; i < p + L; i++) src[i] = (uint8_t) rnd();
                                                        for (unsigned i = 0; i < al; i++) aadv[i] = (uint8_t) rnd();
                                                        for (unsigned i = 0; i < 12; i++) ivv[i] = (uint8_t) rnd();
                                                        uint8_t *in1 = place(R_in, p, mode), *out1 = place(R_out, p, mode), *in2 = place(R_in2, L, mode), *out2 = place(R_out2, L, mode),
                                                                *iv = place(R_iv, 12, mode), *aad = place(R_aad, al, mode), *tag = place(R_tag, tl, mode);
                                                        memcpy(in1, src, p); memcpy(in2, src + p, L); memcpy(iv, ivv, 12); memcpy(aad, aadv, al);
                                                        F->one[ks][dec](&kd, &cd2, ref_out, src, p + L, ivv, aadv, al, ref_tag, tl);
                                                        cases++;
                                                        if (sigsetjmp(jb, 1)) {
                                                                printf("FAULT %s streaming %s-%d update(%u) then update(%u) aad=%llu tag=%llu placement=%s: access at %p outside the caller's ranges "
                                                                       "(in1 %p..+%u, in2 %p..+%u, out1 %p, out2 %p)\ncases=%lu\n", F->name, dec ? "dec" : "enc", ks ? 256 : 128, p, L,
                                                                       (unsigned long long) al, (unsigned long long) tl, mode ? "begins-after-unmapped" : "ends-at-unmapped",
                                                                       (void *) fault_addr, in1, p, in2, L, out1, out2, cases);
                                                                return 1;
                                                        }
                                                        F->init[ks](&kd, &cd, iv, aad, al);
                                                        F->upd[ks][dec](&kd, &cd, out1, in1, p);
                                                        F->upd[ks][dec](&kd, &cd, out2, in2, L);
                                                        F->fin[ks][dec](&kd, &cd, tag, tl);
                                                        memcpy(keep, out1, p); memcpy(keep + p, out2, L);
                                                        if (memcmp(in1, src, p) || memcmp(in2, src + p, L) || memcmp(iv, ivv, 12) || memcmp(aad, aadv, al)) {
                                                                printf("MODIFIED-INPUT %s streaming %s-%d update(%u) update(%u)\ncases=%lu\n", F->name, dec ? "dec" : "enc", ks ? 256 : 128, p, L, cases);
                                                                return 1;
                                                        }
                                                        if (memcmp(keep, ref_out, p + L) || memcmp(tag, ref_tag, tl)) {
                                                                printf("DIFFERENT-RESULT %s streaming %s-%d update(%u) update(%u) != one-shot\ncases=%lu\n", F->name, dec ? "dec" : "enc", ks ? 256 : 128, p, L, cases);
                                                                return 1;
                                                        }
                                                }
                                }
                        /* C. non-temporal variants under their documented rule: data buffers 64-byte aligned, every update but the last a
                         * multiple of 64 bytes.  Buffers begin right after an unmapped page (aligned) or end at one when the length allows it. */
                        for (int dec = 0; dec < 2; dec++)
                                for (int mode = 0; mode < 2; mode++) {
                                        for (unsigned len = 0; len <= lmax; len++) {
                                                uint64_t al = aads[len % 5], tl = tags[len % 3];
                                                unsigned pad = (len + 63) & ~63u;
                                                for (unsigned i = 0; i < len; i++) src[i] = (uint8_t) rnd();
                                                for (unsigned i = 0; i < al; i++) aadv[i] = (uint8_t) rnd();
                                                for (unsigned i = 0; i < 12; i++) ivv[i] = (uint8_t) rnd();
                                                uint8_t *in = mode ? R_in.lo : R_in.hi - pad, *out = mode ? R_out.lo : R_out.hi - pad, *iv = place(R_iv, 12, 0),
                                                        *aad = place(R_aad, al, 0), *tag = place(R_tag, tl, 0);
                                                memcpy(in, src, len); memcpy(iv, ivv, 12); memcpy(aad, aadv, al);
                                                F->one[ks][dec](&kd, &cd2, ref_out, src, len, ivv, aadv, al, ref_tag, tl);
                                                cases++;
                                                if (sigsetjmp(jb, 1)) {
                                                        printf("FAULT %s one-shot _nt %s-%d len=%u aad=%llu placement=%s: access at %p outside the caller's ranges (in %p..+%u, out %p)\ncases=%lu\n",
                                                               F->name, dec ? "dec" : "enc", ks ? 256 : 128, len, (unsigned long long) al, mode ? "begins-after-unmapped" : "ends-at-unmapped (64-byte granule)",
                                                               (void *) fault_addr, in, len, out, cases);
                                                        return 1;
                                                }
                                                F->one_nt[ks][dec](&kd, &cd, out, in, len, iv, aad, al, tag, tl);
                                                if (memcmp(in, src, len)) { printf("MODIFIED-INPUT %s one-shot _nt len=%u\ncases=%lu\n", F->name, len, cases); return 1; }
                                                if (memcmp(out, ref_out, len) || memcmp(tag, ref_tag, tl)) {
                                                        printf("DIFFERENT-RESULT %s one-shot _nt %s-%d len=%u != temporal variant\ncases=%lu\n", F->name, dec ? "dec" : "enc", ks ? 256 : 128, len, cases);
                                                        return 1;
                                                }
                                        }
                                        for (unsigned p = 0; p <= 128; p += 64)
                                                for (unsigned L = 0; L <= smax; L++) {
                                                        uint64_t al = aads[(p / 64 + L) % 5], tl = tags[L % 3];
                                                        unsigned pad = (L + 63) & ~63u;
                                                        for (unsigned i = 0; i < p + L; i++) src[i] = (uint8_t) rnd();
                                                        for (unsigned i = 0; i < al; i++) aadv[i] = (uint8_t) rnd();
                                                        for (unsigned i = 0; i < 12; i++) ivv[i] = (uint8_t) rnd();
                                                        uint8_t *in1 = place(R_in, p, mode), *out1 = place(R_out, p, mode), *in2 = mode ? R_in2.lo : R_in2.hi - pad,
                                                                *out2 = mode ? R_out2.lo : R_out2.hi - pad, *iv = place(R_iv, 12, 0), *aad = place(R_aad, al, 0), *tag = place(R_tag, tl, 0);
                                                        memcpy(in1, src, p); memcpy(in2, src + p, L); memcpy(iv, ivv, 12); memcpy(aad, aadv, al);
                                                        F->one[ks][dec](&kd, &cd2, ref_out, src, p + L, ivv, aadv, al, ref_tag, tl);
                                                        cases++;
                                                        if (sigsetjmp(jb, 1)) {
                                                                printf("FAULT %s streaming _nt %s-%d update(%u) then update(%u) placement=%s: access at %p outside the caller's ranges\ncases=%lu\n",
                                                                       F->name, dec ? "dec" : "enc", ks ? 256 : 128, p, L, mode ? "begins-after-unmapped" : "ends-at-unmapped (64-byte granule)", (void *) fault_addr, cases);
                                                                return 1;
                                                        }
                                                        F->init[ks](&kd, &cd, iv, aad, al);
                                                        F->upd_nt[ks][dec](&kd, &cd, out1, in1, p);
                                                        F->upd_nt[ks][dec](&kd, &cd, out2, in2, L);
                                                        F->fin[ks][dec](&kd, &cd, tag, tl);
                                                        memcpy(keep, out1, p); memcpy(keep + p, out2, L);
                                                        if (memcmp(in1, src, p) || memcmp(in2, src + p, L)) { printf("MODIFIED-INPUT %s streaming _nt\ncases=%lu\n", F->name, cases); return 1; }
                                                        if (memcmp(keep, ref_out, p + L) || memcmp(tag, ref_tag, tl)) {
                                                                printf("DIFFERENT-RESULT %s streaming _nt %s-%d update(%u) update(%u) != one-shot\ncases=%lu\n", F->name, dec ? "dec" : "enc", ks ? 256 : 128, p, L, cases);
                                                                return 1;
                                                        }
                                                }
                                }
                }
        }
        printf("AGREE families=%u cases=%lu\n", nf, cases);
        return 0;
}
