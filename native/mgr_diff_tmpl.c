/* mgr_diff (generated from native/mgr_diff_tmpl.c by vf/native.py) - BOUNDED native check of the contract
 * the context-layer proofs ASSUME for every lane manager (NASM; C for sha512 sb_sse4):
 *   - submit/flush return NULL, or a job that was handed in and not yet returned (never a stranger, never twice)
 *   - the digest of a returned job is the fold of the STANDARD compression function
 *     (reference written from FIPS 180-4 / RFC 1321 / GB/T 32905) over exactly job.len blocks of job.buffer,
 *     starting from the digest the job carried when it was submitted
 *   - flush returns NULL exactly when nothing is held; submit keeps at most LANES-1 jobs inside
 *   - buffer, len, user_data of every job are untouched; input blocks are never modified
 *   - reads stay inside [buffer, buffer+len*BLOCK): every buffer ends flush against a PROT_NONE page
 * Bound: OPS random operations per family, job lengths 1..MAXBLK blocks, all lane occupancies reached. */
#define _GNU_SOURCE
#include <stdio.h>
#include <stdlib.h>
#include <string.h>
#include <stdint.h>
#include <sys/mman.h>
#include "sha1_mb_internal.h"
#include "sha256_mb_internal.h"
#include "sha512_mb_internal.h"
#include "md5_mb_internal.h"
#include "sm3_mb.h"
#include "sm3_mb_internal.h"
#define ROL32(x, n) (((x) << (n)) | ((x) >> (32 - (n))))
#define ROR32(x, n) (((x) >> (n)) | ((x) << (32 - (n))))
#define ROR64(x, n) (((x) >> (n)) | ((x) << (64 - (n))))
static uint64_t X = 88172645463325252ull;
static uint64_t rnd(void) { X ^= X << 13; X ^= X >> 7; X ^= X << 17; return X; }
static uint32_t be32(const uint8_t *p) { return ((uint32_t) p[0] << 24) | (p[1] << 16) | (p[2] << 8) | p[3]; }
static uint32_t le32(const uint8_t *p) { return ((uint32_t) p[3] << 24) | (p[2] << 16) | (p[1] << 8) | p[0]; }
static uint64_t be64(const uint8_t *p) { return ((uint64_t) be32(p) << 32) | be32(p + 4); }
/* ---- reference compression functions ---- */
static void ref_sha1(void *hv, const uint8_t *m)
{
        uint32_t *h = hv, w[80], a = h[0], b = h[1], c = h[2], d = h[3], e = h[4];
        for (int t = 0; t < 16; t++) w[t] = be32(m + 4 * t);
        for (int t = 16; t < 80; t++) w[t] = ROL32(w[t - 3] ^ w[t - 8] ^ w[t - 14] ^ w[t - 16], 1);
        for (int t = 0; t < 80; t++) {
                uint32_t f, k;
                if (t < 20) { f = (b & c) | (~b & d); k = 0x5a827999; }
                else if (t < 40) { f = b ^ c ^ d; k = 0x6ed9eba1; }
                else if (t < 60) { f = (b & c) | (b & d) | (c & d); k = 0x8f1bbcdc; }
                else { f = b ^ c ^ d; k = 0xca62c1d6; }
                uint32_t tmp = ROL32(a, 5) + f + e + k + w[t];
                e = d; d = c; c = ROL32(b, 30); b = a; a = tmp;
        }
        h[0] += a; h[1] += b; h[2] += c; h[3] += d; h[4] += e;
}
static const uint32_t K256[64] = {
        0x428a2f98, 0x71374491, 0xb5c0fbcf, 0xe9b5dba5, 0x3956c25b, 0x59f111f1, 0x923f82a4, 0xab1c5ed5, 0xd807aa98, 0x12835b01, 0x243185be,
        0x550c7dc3, 0x72be5d74, 0x80deb1fe, 0x9bdc06a7, 0xc19bf174, 0xe49b69c1, 0xefbe4786, 0x0fc19dc6, 0x240ca1cc, 0x2de92c6f, 0x4a7484aa,
        0x5cb0a9dc, 0x76f988da, 0x983e5152, 0xa831c66d, 0xb00327c8, 0xbf597fc7, 0xc6e00bf3, 0xd5a79147, 0x06ca6351, 0x14292967, 0x27b70a85,
        0x2e1b2138, 0x4d2c6dfc, 0x53380d13, 0x650a7354, 0x766a0abb, 0x81c2c92e, 0x92722c85, 0xa2bfe8a1, 0xa81a664b, 0xc24b8b70, 0xc76c51a3,
        0xd192e819, 0xd6990624, 0xf40e3585, 0x106aa070, 0x19a4c116, 0x1e376c08, 0x2748774c, 0x34b0bcb5, 0x391c0cb3, 0x4ed8aa4a, 0x5b9cca4f,
        0x682e6ff3, 0x748f82ee, 0x78a5636f, 0x84c87814, 0x8cc70208, 0x90befffa, 0xa4506ceb, 0xbef9a3f7, 0xc67178f2 };
static void ref_sha256(void *hv, const uint8_t *m)
{
        uint32_t *h = hv, w[64], s[8];
        for (int t = 0; t < 16; t++) w[t] = be32(m + 4 * t);
        for (int t = 16; t < 64; t++) {
                uint32_t s0 = ROR32(w[t - 15], 7) ^ ROR32(w[t - 15], 18) ^ (w[t - 15] >> 3), s1 = ROR32(w[t - 2], 17) ^ ROR32(w[t - 2], 19) ^ (w[t - 2] >> 10);
                w[t] = w[t - 16] + s0 + w[t - 7] + s1;
        }
        memcpy(s, h, 32);
        for (int t = 0; t < 64; t++) {
                uint32_t S1 = ROR32(s[4], 6) ^ ROR32(s[4], 11) ^ ROR32(s[4], 25), ch = (s[4] & s[5]) ^ (~s[4] & s[6]);
                uint32_t t1 = s[7] + S1 + ch + K256[t] + w[t], S0 = ROR32(s[0], 2) ^ ROR32(s[0], 13) ^ ROR32(s[0], 22);
                uint32_t maj = (s[0] & s[1]) ^ (s[0] & s[2]) ^ (s[1] & s[2]), t2 = S0 + maj;
                s[7] = s[6]; s[6] = s[5]; s[5] = s[4]; s[4] = s[3] + t1; s[3] = s[2]; s[2] = s[1]; s[1] = s[0]; s[0] = t1 + t2;
        }
        for (int i = 0; i < 8; i++) h[i] += s[i];
}
static const uint64_t K512[80] = {
        0x428a2f98d728ae22ull, 0x7137449123ef65cdull, 0xb5c0fbcfec4d3b2full, 0xe9b5dba58189dbbcull, 0x3956c25bf348b538ull, 0x59f111f1b605d019ull,
        0x923f82a4af194f9bull, 0xab1c5ed5da6d8118ull, 0xd807aa98a3030242ull, 0x12835b0145706fbeull, 0x243185be4ee4b28cull, 0x550c7dc3d5ffb4e2ull,
        0x72be5d74f27b896full, 0x80deb1fe3b1696b1ull, 0x9bdc06a725c71235ull, 0xc19bf174cf692694ull, 0xe49b69c19ef14ad2ull, 0xefbe4786384f25e3ull,
        0x0fc19dc68b8cd5b5ull, 0x240ca1cc77ac9c65ull, 0x2de92c6f592b0275ull, 0x4a7484aa6ea6e483ull, 0x5cb0a9dcbd41fbd4ull, 0x76f988da831153b5ull,
        0x983e5152ee66dfabull, 0xa831c66d2db43210ull, 0xb00327c898fb213full, 0xbf597fc7beef0ee4ull, 0xc6e00bf33da88fc2ull, 0xd5a79147930aa725ull,
        0x06ca6351e003826full, 0x142929670a0e6e70ull, 0x27b70a8546d22ffcull, 0x2e1b21385c26c926ull, 0x4d2c6dfc5ac42aedull, 0x53380d139d95b3dfull,
        0x650a73548baf63deull, 0x766a0abb3c77b2a8ull, 0x81c2c92e47edaee6ull, 0x92722c851482353bull, 0xa2bfe8a14cf10364ull, 0xa81a664bbc423001ull,
        0xc24b8b70d0f89791ull, 0xc76c51a30654be30ull, 0xd192e819d6ef5218ull, 0xd69906245565a910ull, 0xf40e35855771202aull, 0x106aa07032bbd1b8ull,
        0x19a4c116b8d2d0c8ull, 0x1e376c085141ab53ull, 0x2748774cdf8eeb99ull, 0x34b0bcb5e19b48a8ull, 0x391c0cb3c5c95a63ull, 0x4ed8aa4ae3418acbull,
        0x5b9cca4f7763e373ull, 0x682e6ff3d6b2b8a3ull, 0x748f82ee5defb2fcull, 0x78a5636f43172f60ull, 0x84c87814a1f0ab72ull, 0x8cc702081a6439ecull,
        0x90befffa23631e28ull, 0xa4506cebde82bde9ull, 0xbef9a3f7b2c67915ull, 0xc67178f2e372532bull, 0xca273eceea26619cull, 0xd186b8c721c0c207ull,
        0xeada7dd6cde0eb1eull, 0xf57d4f7fee6ed178ull, 0x06f067aa72176fbaull, 0x0a637dc5a2c898a6ull, 0x113f9804bef90daeull, 0x1b710b35131c471bull,
        0x28db77f523047d84ull, 0x32caab7b40c72493ull, 0x3c9ebe0a15c9bebcull, 0x431d67c49c100d4cull, 0x4cc5d4becb3e42b6ull, 0x597f299cfc657e2aull,
        0x5fcb6fab3ad6faecull, 0x6c44198c4a475817ull };
static void ref_sha512(void *hv, const uint8_t *m)
{
        uint64_t *h = hv, w[80], s[8];
        for (int t = 0; t < 16; t++) w[t] = be64(m + 8 * t);
        for (int t = 16; t < 80; t++) {
                uint64_t s0 = ROR64(w[t - 15], 1) ^ ROR64(w[t - 15], 8) ^ (w[t - 15] >> 7), s1 = ROR64(w[t - 2], 19) ^ ROR64(w[t - 2], 61) ^ (w[t - 2] >> 6);
                w[t] = w[t - 16] + s0 + w[t - 7] + s1;
        }
        memcpy(s, h, 64);
        for (int t = 0; t < 80; t++) {
                uint64_t S1 = ROR64(s[4], 14) ^ ROR64(s[4], 18) ^ ROR64(s[4], 41), ch = (s[4] & s[5]) ^ (~s[4] & s[6]);
                uint64_t t1 = s[7] + S1 + ch + K512[t] + w[t], S0 = ROR64(s[0], 28) ^ ROR64(s[0], 34) ^ ROR64(s[0], 39);
                uint64_t maj = (s[0] & s[1]) ^ (s[0] & s[2]) ^ (s[1] & s[2]), t2 = S0 + maj;
                s[7] = s[6]; s[6] = s[5]; s[5] = s[4]; s[4] = s[3] + t1; s[3] = s[2]; s[2] = s[1]; s[1] = s[0]; s[0] = t1 + t2;
        }
        for (int i = 0; i < 8; i++) h[i] += s[i];
}
static void ref_md5(void *hv, const uint8_t *m)
{
        static const uint32_t S[64] = { 7, 12, 17, 22, 7, 12, 17, 22, 7, 12, 17, 22, 7, 12, 17, 22, 5, 9, 14, 20, 5, 9, 14, 20, 5, 9, 14, 20, 5, 9, 14, 20,
                                        4, 11, 16, 23, 4, 11, 16, 23, 4, 11, 16, 23, 4, 11, 16, 23, 6, 10, 15, 21, 6, 10, 15, 21, 6, 10, 15, 21, 6, 10, 15, 21 };
        static const uint32_t K[64] = {
                0xd76aa478, 0xe8c7b756, 0x242070db, 0xc1bdceee, 0xf57c0faf, 0x4787c62a, 0xa8304613, 0xfd469501, 0x698098d8, 0x8b44f7af, 0xffff5bb1,
                0x895cd7be, 0x6b901122, 0xfd987193, 0xa679438e, 0x49b40821, 0xf61e2562, 0xc040b340, 0x265e5a51, 0xe9b6c7aa, 0xd62f105d, 0x02441453,
                0xd8a1e681, 0xe7d3fbc8, 0x21e1cde6, 0xc33707d6, 0xf4d50d87, 0x455a14ed, 0xa9e3e905, 0xfcefa3f8, 0x676f02d9, 0x8d2a4c8a, 0xfffa3942,
                0x8771f681, 0x6d9d6122, 0xfde5380c, 0xa4beea44, 0x4bdecfa9, 0xf6bb4b60, 0xbebfbc70, 0x289b7ec6, 0xeaa127fa, 0xd4ef3085, 0x04881d05,
                0xd9d4d039, 0xe6db99e5, 0x1fa27cf8, 0xc4ac5665, 0xf4292244, 0x432aff97, 0xab9423a7, 0xfc93a039, 0x655b59c3, 0x8f0ccc92, 0xffeff47d,
                0x85845dd1, 0x6fa87e4f, 0xfe2ce6e0, 0xa3014314, 0x4e0811a1, 0xf7537e82, 0xbd3af235, 0x2ad7d2bb, 0xeb86d391 };
        uint32_t *h = hv, w[16], a = h[0], b = h[1], c = h[2], d = h[3];
        for (int t = 0; t < 16; t++) w[t] = le32(m + 4 * t);
        for (int i = 0; i < 64; i++) {
                uint32_t f; int g;
                if (i < 16) { f = (b & c) | (~b & d); g = i; }
                else if (i < 32) { f = (d & b) | (~d & c); g = (5 * i + 1) % 16; }
                else if (i < 48) { f = b ^ c ^ d; g = (3 * i + 5) % 16; }
                else { f = c ^ (b | ~d); g = (7 * i) % 16; }
                f = f + a + K[i] + w[g];
                a = d; d = c; c = b; b = b + ROL32(f, S[i]);
        }
        h[0] += a; h[1] += b; h[2] += c; h[3] += d;
}
static void ref_sm3(void *hv, const uint8_t *m)
{
        uint32_t *h = hv, w[68], w1[64], a = h[0], b = h[1], c = h[2], d = h[3], e = h[4], f = h[5], g = h[6], hh = h[7];
#define P0(x) ((x) ^ ROL32(x, 9) ^ ROL32(x, 17))
#define P1(x) ((x) ^ ROL32(x, 15) ^ ROL32(x, 23))
        for (int j = 0; j < 16; j++) w[j] = be32(m + 4 * j);
        for (int j = 16; j < 68; j++) { uint32_t x = w[j - 16] ^ w[j - 9] ^ ROL32(w[j - 3], 15); w[j] = P1(x) ^ ROL32(w[j - 13], 7) ^ w[j - 6]; }
        for (int j = 0; j < 64; j++) w1[j] = w[j] ^ w[j + 4];
        for (int j = 0; j < 64; j++) {
                uint32_t T = j < 16 ? 0x79cc4519 : 0x7a879d8a, r = j % 32;
                uint32_t Tj = r ? ROL32(T, r) : T;
                uint32_t ss1 = ROL32(ROL32(a, 12) + e + Tj, 7), ss2 = ss1 ^ ROL32(a, 12);
                uint32_t ff = j < 16 ? (a ^ b ^ c) : ((a & b) | (a & c) | (b & c)), gg = j < 16 ? (e ^ f ^ g) : ((e & f) | (~e & g));
                uint32_t tt1 = ff + d + ss2 + w1[j], tt2 = gg + hh + ss1 + w[j];
                d = c; c = ROL32(b, 9); b = a; a = tt1; hh = g; g = ROL32(f, 19); f = e; e = P0(tt2);
        }
        h[0] ^= a; h[1] ^= b; h[2] ^= c; h[3] ^= d; h[4] ^= e; h[5] ^= f; h[6] ^= g; h[7] ^= hh;
}
/* ---- guarded buffers: data ends flush against an inaccessible page ---- */
static uint8_t *guarded(size_t n)
{
        size_t pg = 4096, tot = ((n + pg - 1) / pg + 1) * pg;
        uint8_t *p = mmap(0, tot, PROT_READ | PROT_WRITE, MAP_PRIVATE | MAP_ANONYMOUS, -1, 0);
        if (p == MAP_FAILED) { perror("mmap"); exit(3); }
        mprotect(p + tot - pg, pg, PROT_NONE);
        return p + tot - pg - n;
}
static unsigned long g_calls, g_cases;
#define MAXJ 64
#define FAMILY_TEST(NAME, JOB_T, MGR_T, INIT, SUBMIT, FLUSH, BLOCK, DIGBYTES, REF)                  \
        JOB_T *SUBMIT(MGR_T *, JOB_T *); JOB_T *FLUSH(MGR_T *); void INIT(MGR_T *);                 \
        static int test_##NAME(unsigned ops, unsigned maxblk)                                      \
        {                                                                                          \
                static MGR_T mgr __attribute__((aligned(64)));                                     \
                static JOB_T jobs[MAXJ] __attribute__((aligned(64)));                              \
                static uint8_t expect[MAXJ][64]; static uint8_t *bufs[MAXJ]; static uint8_t *copy[MAXJ]; \
                static uint64_t lens[MAXJ]; static void *ud[MAXJ]; static int state[MAXJ]; /* 0 free 1 held */ \
                unsigned held = 0, maxheld = 0;                                                    \
                memset(&mgr, 0xA5, sizeof mgr); /* init must define everything it later reads */   \
                INIT(&mgr);                                                                        \
                for (unsigned op = 0; op < ops; op++) {                                            \
                        int doflush = (rnd() % 8) == 0 || held >= MAXJ - 1;                        \
                        JOB_T *r; int idx = -1;                                                    \
                        if (!doflush) {                                                            \
                                for (idx = 0; idx < MAXJ && state[idx]; idx++) ;                    \
                                unsigned nb = 1 + rnd() % maxblk;                                  \
                                if ((rnd() % 16) == 0) nb = 1 + rnd() % (4 * maxblk);               \
                                bufs[idx] = guarded((size_t) nb * BLOCK); copy[idx] = malloc((size_t) nb * BLOCK); \
                                for (size_t i = 0; i < (size_t) nb * BLOCK; i++) copy[idx][i] = bufs[idx][i] = (uint8_t) rnd(); \
                                memset(&jobs[idx], 0, sizeof jobs[idx]);                            \
                                for (unsigned i = 0; i < DIGBYTES; i++) ((uint8_t *) jobs[idx].result_digest)[i] = (uint8_t) rnd(); \
                                memcpy(expect[idx], jobs[idx].result_digest, DIGBYTES);             \
                                for (unsigned b = 0; b < nb; b++) REF(expect[idx], bufs[idx] + (size_t) b * BLOCK); \
                                jobs[idx].buffer = bufs[idx]; jobs[idx].len = nb; lens[idx] = nb;   \
                                ud[idx] = (void *) (uintptr_t) rnd(); jobs[idx].user_data = ud[idx]; \
                                state[idx] = 1; held++;                                            \
                                r = SUBMIT(&mgr, &jobs[idx]);                                       \
                        } else                                                                     \
                                r = FLUSH(&mgr);                                                   \
                        g_calls++;                                                                 \
                        if (held > maxheld) maxheld = held;                                        \
                        if (r == 0) {                                                              \
                                if (doflush && held != 0) { printf("CONTRACT " #NAME ": flush returned NULL with %u job(s) held (op %u)\n", held, op); return 1; } \
                                continue;                                                          \
                        }                                                                          \
                        long k = r - jobs;                                                         \
                        if (k < 0 || k >= MAXJ || &jobs[k] != r || !state[k]) { printf("CONTRACT " #NAME ": returned a job that is not held (op %u)\n", op); return 1; } \
                        if (doflush && held == 0) { printf("CONTRACT " #NAME ": flush returned a job with nothing held\n"); return 1; } \
                        g_cases++;                                                                 \
                        if (memcmp(r->result_digest, expect[k], DIGBYTES)) { printf("CONTRACT " #NAME ": digest != fold of the standard compression over %lu block(s) (op %u, job %ld)\n", (unsigned long) lens[k], op, k); return 1; } \
                        if (r->buffer != bufs[k] || r->len != lens[k] || r->user_data != ud[k]) { printf("CONTRACT " #NAME ": job fields modified (op %u)\n", op); return 1; } \
                        if (memcmp(bufs[k], copy[k], (size_t) lens[k] * BLOCK)) { printf("CONTRACT " #NAME ": input buffer modified (op %u)\n", op); return 1; } \
                        free(copy[k]); state[k] = 0; held--;                                       \
                }                                                                                  \
                while (held) {                                                                     \
                        JOB_T *r = FLUSH(&mgr); g_calls++;                                          \
                        if (!r) { printf("CONTRACT " #NAME ": flush returned NULL with %u job(s) held (drain)\n", held); return 1; } \
                        long k = r - jobs;                                                         \
                        if (k < 0 || k >= MAXJ || !state[k] || memcmp(r->result_digest, expect[k], DIGBYTES) ) { printf("CONTRACT " #NAME ": bad job while draining\n"); return 1; } \
                        state[k] = 0; held--; g_cases++;                                           \
                }                                                                                  \
                if (FLUSH(&mgr) != 0) { printf("CONTRACT " #NAME ": flush of an empty manager returned a job\n"); return 1; } \
                printf("  %-28s ok (max jobs inside %u)\n", #NAME, maxheld);                        \
                return 0;                                                                          \
        }
@FAMILIES@
int main(int argc, char **argv)
{
        unsigned ops = argc > 1 ? atoi(argv[1]) : 2000, maxblk = argc > 2 ? atoi(argv[2]) : 4;
        if (argc > 3) X ^= strtoull(argv[3], 0, 0) * 0x9E3779B97F4A7C15ull;
        int bad = 0;
@CALLS@
        printf("%s calls=%lu cases=%lu\n", bad ? "VIOLATED" : "AGREE", g_calls, g_cases);
        return bad;
}
