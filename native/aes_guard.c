/* aes_guard.c - BOUNDED native guard-page check for C08 on the NASM AES-XTS and AES-CBC code, every x86 family through its
 * internal entry point.  Data ranges (input, output) END exactly at an unmapped page and, in a second pass, BEGIN exactly
 * after one; raw keys and the 16-byte tweak end at an unmapped page.  Reported: a fault (access outside a caller-supplied
 * range), a modified input, a result that depends on the placement, decrypt(encrypt(x)) != x.
 * XTS: every sector length 16..XMAX (ciphertext stealing for the non-multiples of 16).  CBC: every multiple of 16 up to CMAX. */
#define _GNU_SOURCE
#include <stdio.h>
#include <stdlib.h>
#include <string.h>
#include <stdint.h>
#include <signal.h>
#include <setjmp.h>
#include <sys/mman.h>
#include <unistd.h>
#include "aes_cbc.h"
#include "aes_keyexp.h"

typedef void (*xts_fn)(uint8_t *, uint8_t *, uint8_t *, uint64_t, const uint8_t *, uint8_t *);
typedef void (*cbcd_fn)(void *, uint8_t *, uint8_t *, void *, uint64_t);
typedef int (*cbce_fn)(void *, uint8_t *, uint8_t *, void *, uint64_t);
#define XFAMS(X) X(sse) X(avx) X(vaes)
#define XDECL(f) void _XTS_AES_128_enc_##f(uint8_t *, uint8_t *, uint8_t *, uint64_t, const uint8_t *, uint8_t *); \
        void _XTS_AES_128_dec_##f(uint8_t *, uint8_t *, uint8_t *, uint64_t, const uint8_t *, uint8_t *);           \
        void _XTS_AES_256_enc_##f(uint8_t *, uint8_t *, uint8_t *, uint64_t, const uint8_t *, uint8_t *);           \
        void _XTS_AES_256_dec_##f(uint8_t *, uint8_t *, uint8_t *, uint64_t, const uint8_t *, uint8_t *);
XFAMS(XDECL)
#define XDECLE(f) void _XTS_AES_128_enc_expanded_key_##f(uint8_t *, uint8_t *, uint8_t *, uint64_t, const uint8_t *, uint8_t *); \
        void _XTS_AES_128_dec_expanded_key_##f(uint8_t *, uint8_t *, uint8_t *, uint64_t, const uint8_t *, uint8_t *);           \
        void _XTS_AES_256_enc_expanded_key_##f(uint8_t *, uint8_t *, uint8_t *, uint64_t, const uint8_t *, uint8_t *);           \
        void _XTS_AES_256_dec_expanded_key_##f(uint8_t *, uint8_t *, uint8_t *, uint64_t, const uint8_t *, uint8_t *);
XFAMS(XDECLE)
struct xfam { const char *name; xts_fn enc[2], dec[2], ence[2], dece[2]; };
#define XENTRY(f) { #f, { _XTS_AES_128_enc_##f, _XTS_AES_256_enc_##f }, { _XTS_AES_128_dec_##f, _XTS_AES_256_dec_##f },          \
                    { _XTS_AES_128_enc_expanded_key_##f, _XTS_AES_256_enc_expanded_key_##f },                                     \
                    { _XTS_AES_128_dec_expanded_key_##f, _XTS_AES_256_dec_expanded_key_##f } },
static struct xfam xfams[] = { XFAMS(XENTRY) };
#define CFAMS(X) X(sse) X(avx) X(vaes_avx512)
#define CDECL(f) void _aes_cbc_dec_128_##f(void *, uint8_t *, uint8_t *, void *, uint64_t); void _aes_cbc_dec_192_##f(void *, uint8_t *, uint8_t *, void *, uint64_t); \
        void _aes_cbc_dec_256_##f(void *, uint8_t *, uint8_t *, void *, uint64_t);
CFAMS(CDECL)
int _aes_cbc_enc_128_x4(void *, uint8_t *, uint8_t *, void *, uint64_t); int _aes_cbc_enc_192_x4(void *, uint8_t *, uint8_t *, void *, uint64_t);
int _aes_cbc_enc_256_x4(void *, uint8_t *, uint8_t *, void *, uint64_t); int _aes_cbc_enc_128_x8(void *, uint8_t *, uint8_t *, void *, uint64_t);
int _aes_cbc_enc_192_x8(void *, uint8_t *, uint8_t *, void *, uint64_t); int _aes_cbc_enc_256_x8(void *, uint8_t *, uint8_t *, void *, uint64_t);
struct cfam { const char *name; cbcd_fn dec[3]; };
#define CENTRY(f) { #f, { _aes_cbc_dec_128_##f, _aes_cbc_dec_192_##f, _aes_cbc_dec_256_##f } },
static struct cfam cfams[] = { CFAMS(CENTRY) };

static sigjmp_buf jb;
static volatile void *fault_addr;
static void on_segv(int sig, siginfo_t *si, void *u) { (void) sig; (void) u; fault_addr = si->si_addr; siglongjmp(jb, 1); }
struct region { uint8_t *lo, *hi; };
static struct region mk(void)
{
        long ps = sysconf(_SC_PAGESIZE);
        uint8_t *m = mmap(0, 4 * ps, PROT_READ | PROT_WRITE, MAP_PRIVATE | MAP_ANONYMOUS, -1, 0);
        if (m == MAP_FAILED) exit(77);
        mprotect(m, ps, PROT_NONE); mprotect(m + 3 * ps, ps, PROT_NONE);
        struct region r = { m + ps, m + 3 * ps };
        return r;
}
static uint8_t *place(struct region r, size_t n, int mode) { return mode ? r.lo : r.hi - n; }
static uint64_t x = 88172645463325252ull;
static uint64_t rnd(void) { x ^= x << 13; x ^= x >> 7; x ^= x << 17; return x; }
static int supported(const char *f)
{
        __builtin_cpu_init();
        if (!__builtin_cpu_supports("aes") || !__builtin_cpu_supports("sse4.1")) return 0;
        if (!strcmp(f, "sse")) return 1;
        if (!strcmp(f, "avx")) return __builtin_cpu_supports("avx");
        return __builtin_cpu_supports("avx512f") && __builtin_cpu_supports("avx512bw") && __builtin_cpu_supports("avx512vl") &&
               __builtin_cpu_supports("vaes") && __builtin_cpu_supports("vpclmulqdq");
}
int main(int argc, char **argv)
{
        unsigned xmax = argc > 1 ? atoi(argv[1]) : 300, cmax = argc > 2 ? atoi(argv[2]) : 1024;
        if (argc > 3) x ^= strtoull(argv[3], 0, 0) * 0x9E3779B97F4A7C15ull;
        struct sigaction sa; memset(&sa, 0, sizeof sa); sa.sa_sigaction = on_segv; sa.sa_flags = SA_SIGINFO | SA_NODEFER;
        sigaction(SIGSEGV, &sa, 0); sigaction(SIGBUS, &sa, 0);
        struct region R_in = mk(), R_out = mk(), R_k1 = mk(), R_k2 = mk(), R_tw = mk(), R_back = mk();
        static uint8_t src[8192], ref[8192], k1v[32], k2v[32], twv[16];
        unsigned long cases = 0; unsigned nf = 0;
        /* ---- XTS ---- */
        for (unsigned fi = 0; fi < sizeof xfams / sizeof xfams[0]; fi++) {
                struct xfam *F = &xfams[fi];
                if (!supported(F->name)) { printf("skip xts %s (CPU)\n", F->name); continue; }
                nf++;
                for (int ks = 0; ks < 2; ks++)
                        for (int mode = 0; mode < 2; mode++)
                                for (unsigned n = 16; n <= xmax; n++) {
                                        unsigned kb = ks ? 32 : 16;
                                        for (unsigned i = 0; i < n; i++) src[i] = (uint8_t) rnd();
                                        for (unsigned i = 0; i < 32; i++) { k1v[i] = (uint8_t) rnd(); k2v[i] = (uint8_t) rnd(); }
                                        for (unsigned i = 0; i < 16; i++) twv[i] = (uint8_t) rnd();
                                        uint8_t *in = place(R_in, n, mode), *out = place(R_out, n, mode), *back = place(R_back, n, mode),
                                                *k1 = place(R_k1, kb, 0), *k2 = place(R_k2, kb, 0), *tw = place(R_tw, 16, 0);
                                        memcpy(in, src, n); memcpy(k1, k1v, kb); memcpy(k2, k2v, kb); memcpy(tw, twv, 16);
                                        F->enc[ks](k2v, k1v, twv, n, src, ref);
                                        cases++;
                                        if (sigsetjmp(jb, 1)) {
                                                printf("FAULT xts %s AES-%d N=%u placement=%s: access at %p outside the caller's ranges (pt %p..+%u, ct %p, k1 %p, k2 %p, tweak %p)\ncases=%lu\n",
                                                       F->name, ks ? 256 : 128, n, mode ? "begins-after-unmapped" : "ends-at-unmapped", (void *) fault_addr, in, n, out, k1, k2, tw, cases);
                                                return 1;
                                        }
                                        F->enc[ks](k2, k1, tw, n, in, out);
                                        F->dec[ks](k2, k1, tw, n, out, back);
                                        if (memcmp(in, src, n) || memcmp(k1, k1v, kb) || memcmp(k2, k2v, kb) || memcmp(tw, twv, 16)) {
                                                printf("MODIFIED-INPUT xts %s AES-%d N=%u\ncases=%lu\n", F->name, ks ? 256 : 128, n, cases); return 1; }
                                        if (memcmp(out, ref, n)) { printf("DIFFERENT-RESULT xts %s AES-%d N=%u (placement changes the ciphertext)\ncases=%lu\n", F->name, ks ? 256 : 128, n, cases); return 1; }
                                        if (memcmp(back, src, n)) { printf("ROUNDTRIP xts %s AES-%d N=%u: decrypt(encrypt(x)) != x\ncases=%lu\n", F->name, ks ? 256 : 128, n, cases); return 1; }
                                        /* pre-expanded-key entry points: expanded schedules end at an unmapped page; byte-identical to the raw-key result */
                                        {
                                                static uint8_t e1[240], d1[240], e2[240], d2[240];
                                                unsigned eb = ks ? 16 * 15 : 16 * 11;
                                                if (ks) { isal_aes_keyexp_256(k1v, e1, d1); isal_aes_keyexp_256(k2v, e2, d2); }
                                                else { isal_aes_keyexp_128(k1v, e1, d1); isal_aes_keyexp_128(k2v, e2, d2); }
                                                static struct region R_e1, R_e2, R_d1; static int init;
                                                if (!init) { R_e1 = mk(); R_e2 = mk(); R_d1 = mk(); init = 1; }
                                                uint8_t *pe1 = place(R_e1, eb, 0), *pe2 = place(R_e2, eb, 0), *pd1 = place(R_d1, eb, 0);
                                                memcpy(pe1, e1, eb); memcpy(pe2, e2, eb); memcpy(pd1, d1, eb);
                                                cases++;
                                                if (sigsetjmp(jb, 1)) {
                                                        printf("FAULT xts %s expanded-key AES-%d N=%u placement=%s: access at %p outside the caller's ranges\ncases=%lu\n",
                                                               F->name, ks ? 256 : 128, n, mode ? "begins-after-unmapped" : "ends-at-unmapped", (void *) fault_addr, cases);
                                                        return 1;
                                                }
                                                memset(out, 0, n); memset(back, 0, n);
                                                F->ence[ks](pe2, pe1, tw, n, in, out);
                                                F->dece[ks](pe2, pd1, tw, n, out, back);
                                                if (memcmp(pe1, e1, eb) || memcmp(pe2, e2, eb) || memcmp(pd1, d1, eb) || memcmp(in, src, n) || memcmp(tw, twv, 16)) {
                                                        printf("MODIFIED-INPUT xts %s expanded-key AES-%d N=%u\ncases=%lu\n", F->name, ks ? 256 : 128, n, cases); return 1; }
                                                if (memcmp(out, ref, n)) { printf("DIFFERENT-RESULT xts %s AES-%d N=%u: expanded-key result != raw-key result\ncases=%lu\n", F->name, ks ? 256 : 128, n, cases); return 1; }
                                                if (memcmp(back, src, n)) { printf("ROUNDTRIP xts %s expanded-key AES-%d N=%u\ncases=%lu\n", F->name, ks ? 256 : 128, n, cases); return 1; }
                                        }
                                }
        }
        /* ---- CBC ---- */
        static struct isal_cbc_key_data kd __attribute__((aligned(16)));
        static uint8_t iv[16] __attribute__((aligned(16))), iv0[16], key[32];
        const int kbits[3] = { 128, 192, 256 };
        cbce_fn encs[2][3] = { { _aes_cbc_enc_128_x4, _aes_cbc_enc_192_x4, _aes_cbc_enc_256_x4 }, { _aes_cbc_enc_128_x8, _aes_cbc_enc_192_x8, _aes_cbc_enc_256_x8 } };
        for (unsigned fi = 0; fi < sizeof cfams / sizeof cfams[0]; fi++) {
                struct cfam *F = &cfams[fi];
                if (!supported(F->name)) { printf("skip cbc %s (CPU)\n", F->name); continue; }
                nf++;
                for (int k = 0; k < 3; k++) {
                        for (unsigned i = 0; i < 32; i++) key[i] = (uint8_t) rnd();
                        if (k == 0) isal_aes_keyexp_128(key, kd.enc_keys, kd.dec_keys);
                        else if (k == 1) isal_aes_keyexp_192(key, kd.enc_keys, kd.dec_keys);
                        else isal_aes_keyexp_256(key, kd.enc_keys, kd.dec_keys);
                        for (int mode = 0; mode < 2; mode++)
                                for (unsigned n = 16; n <= cmax; n += 16) {
                                        for (unsigned i = 0; i < n; i++) src[i] = (uint8_t) rnd();
                                        for (unsigned i = 0; i < 16; i++) iv0[i] = (uint8_t) rnd();
                                        uint8_t *in = place(R_in, n, mode), *out = place(R_out, n, mode), *back = place(R_back, n, mode);
                                        memcpy(in, src, n); memcpy(iv, iv0, 16);
                                        encs[fi & 1][k](src, iv, kd.enc_keys, ref, n); memcpy(iv, iv0, 16);
                                        cases++;
                                        if (sigsetjmp(jb, 1)) {
                                                printf("FAULT cbc %s (enc x%d) AES-%d len=%u placement=%s: access at %p outside the caller's ranges (in %p..+%u, out %p)\ncases=%lu\n",
                                                       F->name, (fi & 1) ? 8 : 4, kbits[k], n, mode ? "begins-after-unmapped" : "ends-at-unmapped", (void *) fault_addr, in, n, out, cases);
                                                return 1;
                                        }
                                        encs[fi & 1][k](in, iv, kd.enc_keys, out, n); memcpy(iv, iv0, 16);
                                        F->dec[k](out, iv, kd.dec_keys, back, n);
                                        if (memcmp(in, src, n)) { printf("MODIFIED-INPUT cbc AES-%d len=%u\ncases=%lu\n", kbits[k], n, cases); return 1; }
                                        if (memcmp(out, ref, n)) { printf("DIFFERENT-RESULT cbc enc x%d AES-%d len=%u\ncases=%lu\n", (fi & 1) ? 8 : 4, kbits[k], n, cases); return 1; }
                                        if (memcmp(back, src, n)) { printf("ROUNDTRIP cbc %s AES-%d len=%u: decrypt(encrypt(x)) != x\ncases=%lu\n", F->name, kbits[k], n, cases); return 1; }
                                }
                }
        }
        /* ---- key expansion: key and both schedules end at / begin after an unmapped page; sse and avx agree; key unmodified ---- */
        {
                void _aes_keyexp_128_sse(const uint8_t *, uint8_t *, uint8_t *); void _aes_keyexp_128_avx(const uint8_t *, uint8_t *, uint8_t *);
                void _aes_keyexp_192_sse(const uint8_t *, uint8_t *, uint8_t *); void _aes_keyexp_192_avx(const uint8_t *, uint8_t *, uint8_t *);
                void _aes_keyexp_256_sse(const uint8_t *, uint8_t *, uint8_t *); void _aes_keyexp_256_avx(const uint8_t *, uint8_t *, uint8_t *);
                typedef void (*kx_fn)(const uint8_t *, uint8_t *, uint8_t *);
                kx_fn kx[2][3] = { { _aes_keyexp_128_sse, _aes_keyexp_192_sse, _aes_keyexp_256_sse }, { _aes_keyexp_128_avx, _aes_keyexp_192_avx, _aes_keyexp_256_avx } };
                const unsigned kbytes[3] = { 16, 24, 32 }, sched[3] = { 16 * 11, 16 * 13, 16 * 15 };
                static uint8_t e0[240], d0[240];
                struct region R_e = mk(), R_d = mk();
                for (int fam = 0; fam < 2; fam++) {
                        if (!supported(fam ? "avx" : "sse")) continue;
                        for (int k = 0; k < 3; k++)
                                for (int mode = 0; mode < 2; mode++)
                                        for (int rep = 0; rep < 50; rep++) {
                                                for (unsigned i = 0; i < 32; i++) key[i] = (uint8_t) rnd();
                                                uint8_t *pk = place(R_k1, kbytes[k], mode), *pe = place(R_e, sched[k], mode), *pd = place(R_d, sched[k], mode);
                                                memcpy(pk, key, kbytes[k]);
                                                kx[0][k](key, e0, d0); /* reference run: sse family, roomy buffers */
                                                cases++;
                                                if (sigsetjmp(jb, 1)) {
                                                        printf("FAULT keyexp %s AES-%d placement=%s: access at %p outside the caller's ranges (key %p..+%u, enc %p..+%u, dec %p)\ncases=%lu\n",
                                                               fam ? "avx" : "sse", kbits[k], mode ? "begins-after-unmapped" : "ends-at-unmapped", (void *) fault_addr, pk, kbytes[k], pe, sched[k], pd, cases);
                                                        return 1;
                                                }
                                                kx[fam][k](pk, pe, pd);
                                                if (memcmp(pk, key, kbytes[k])) { printf("MODIFIED-INPUT keyexp AES-%d\ncases=%lu\n", kbits[k], cases); return 1; }
                                                if (memcmp(pe, e0, sched[k]) || memcmp(pd, d0, sched[k])) {
                                                        printf("DIFFERENT-RESULT keyexp %s AES-%d: schedule differs from the sse family / roomy run\ncases=%lu\n", fam ? "avx" : "sse", kbits[k], cases); return 1; }
                                        }
                }
        }
        printf("AGREE families=%u cases=%lu\n", nf, cases);
        return 0;
}
