/* mh_diff.c - BOUNDED native checks of the contracts the mh_sha1 / mh_sha256 proofs ASSUME:
 *  (1) _mh_shaN_block_base == 16 interleaved standard compressions (reference written from FIPS 180-4),
 *  (2) every NASM block function == _mh_shaN_block_base (aligned and unaligned input, 1..4 blocks),
 *  (3) the outer hash == standard SHA-1 / SHA-256 of the segment-digest matrix,
 *  (4) end to end: init, update..., finalize with random segmentation == the multi-hash definition.
 * usage: mh_diff <iterations> <seed>     exit 1 + a replayable line on the first disagreement */
#include <stdio.h>
#include <stdlib.h>
#include <string.h>
#include <stdint.h>
#include "mh_sha1.h"
#include "mh_sha256.h"
#define ROL(x, n) (((x) << (n)) | ((x) >> (32 - (n))))
#define ROR(x, n) (((x) >> (n)) | ((x) << (32 - (n))))
static uint64_t X = 88172645463325252ull;
static uint64_t rnd(void) { X ^= X << 13; X ^= X >> 7; X ^= X << 17; return X; }

/* ---- reference compression functions (FIPS 180-4) ---- */
static void sha1_c(uint32_t h[5], const uint32_t w16[16])
{
        uint32_t w[80], a = h[0], b = h[1], c = h[2], d = h[3], e = h[4];
        for (int t = 0; t < 16; t++) w[t] = w16[t];
        for (int t = 16; t < 80; t++) w[t] = ROL(w[t - 3] ^ w[t - 8] ^ w[t - 14] ^ w[t - 16], 1);
        for (int t = 0; t < 80; t++) {
                uint32_t f, k;
                if (t < 20) { f = (b & c) | (~b & d); k = 0x5a827999; }
                else if (t < 40) { f = b ^ c ^ d; k = 0x6ed9eba1; }
                else if (t < 60) { f = (b & c) | (b & d) | (c & d); k = 0x8f1bbcdc; }
                else { f = b ^ c ^ d; k = 0xca62c1d6; }
                uint32_t tmp = ROL(a, 5) + f + e + k + w[t];
                e = d; d = c; c = ROL(b, 30); b = a; a = tmp;
        }
        h[0] += a; h[1] += b; h[2] += c; h[3] += d; h[4] += e;
}
static const uint32_t K256[64] = {
        0x428a2f98, 0x71374491, 0xb5c0fbcf, 0xe9b5dba5, 0x3956c25b, 0x59f111f1, 0x923f82a4, 0xab1c5ed5, 0xd807aa98, 0x12835b01, 0x243185be,
        0x550c7dc3, 0x72be5d74, 0x80deb1fe, 0x9bdc06a7, 0xc19bf174, 0xe49b69c1, 0xefbe4786, 0x0fc19dc6, 0x240ca1cc, 0x2de92c6f, 0x4a7484aa,
        0x5cb0a9dc, 0x76f988da, 0x983e5152, 0xa831c66d, 0xb00327c8, 0xbf597fc7, 0xc6e00bf3, 0xd5a79147, 0x06ca6351, 0x14292967, 0x27b70a85,
        0x2e1b2138, 0x4d2c6dfc, 0x53380d13, 0x650a7354, 0x766a0abb, 0x81c2c92e, 0x92722c85, 0xa2bfe8a1, 0xa81a664b, 0xc24b8b70, 0xc76c51a3,
        0xd192e819, 0xd6990624, 0xf40e3585, 0x106aa070, 0x19a4c116, 0x1e376c08, 0x2748774c, 0x34b0bcb5, 0x391c0cb3, 0x4ed8aa4a, 0x5b9cca4f,
        0x682e6ff3, 0x748f82ee, 0x78a5636f, 0x84c87814, 0x8cc70208, 0x90befffa, 0xa4506ceb, 0xbef9a3f7, 0xc67178f2 };
static void sha256_c(uint32_t h[8], const uint32_t w16[16])
{
        uint32_t w[64], s[8];
        for (int t = 0; t < 16; t++) w[t] = w16[t];
        for (int t = 16; t < 64; t++) {
                uint32_t s0 = ROR(w[t - 15], 7) ^ ROR(w[t - 15], 18) ^ (w[t - 15] >> 3), s1 = ROR(w[t - 2], 17) ^ ROR(w[t - 2], 19) ^ (w[t - 2] >> 10);
                w[t] = w[t - 16] + s0 + w[t - 7] + s1;
        }
        memcpy(s, h, 32);
        for (int t = 0; t < 64; t++) {
                uint32_t S1 = ROR(s[4], 6) ^ ROR(s[4], 11) ^ ROR(s[4], 25), ch = (s[4] & s[5]) ^ (~s[4] & s[6]);
                uint32_t t1 = s[7] + S1 + ch + K256[t] + w[t], S0 = ROR(s[0], 2) ^ ROR(s[0], 13) ^ ROR(s[0], 22);
                uint32_t maj = (s[0] & s[1]) ^ (s[0] & s[2]) ^ (s[1] & s[2]), t2 = S0 + maj;
                s[7] = s[6]; s[6] = s[5]; s[5] = s[4]; s[4] = s[3] + t1; s[3] = s[2]; s[2] = s[1]; s[1] = s[0]; s[0] = t1 + t2;
        }
        for (int i = 0; i < 8; i++) h[i] += s[i];
}
static uint32_t be32(const uint8_t *p) { return ((uint32_t) p[0] << 24) | (p[1] << 16) | (p[2] << 8) | p[3]; }
/* standard hash of a byte string (for the outer hash) */
static void std_hash(int W, const uint8_t *m, size_t n, uint32_t *out)
{
        static const uint32_t iv1[5] = { 0x67452301, 0xefcdab89, 0x98badcfe, 0x10325476, 0xc3d2e1f0 };
        static const uint32_t iv2[8] = { 0x6a09e667, 0xbb67ae85, 0x3c6ef372, 0xa54ff53a, 0x510e527f, 0x9b05688c, 0x1f83d9ab, 0x5be0cd19 };
        uint8_t buf[2048]; size_t tot = ((n + 9 + 63) / 64) * 64;
        memset(buf, 0, tot); memcpy(buf, m, n); buf[n] = 0x80;
        for (int i = 0; i < 8; i++) buf[tot - 1 - i] = (uint8_t) (((uint64_t) n * 8) >> (8 * i));
        memcpy(out, W == 5 ? iv1 : iv2, 4 * W);
        for (size_t o = 0; o < tot; o += 64) { uint32_t w[16]; for (int j = 0; j < 16; j++) w[j] = be32(buf + o + 4 * j); if (W == 5) sha1_c(out, w); else sha256_c(out, w); }
}
/* the multi-hash definition on n*1024 bytes: segment s gets, per 1024-byte block, the words at 64*j + 4*s */
static void ref_block(int W, const uint8_t *in, uint32_t dig[][16], unsigned nblk)
{
        for (unsigned b = 0; b < nblk; b++)
                for (int s = 0; s < 16; s++) {
                        uint32_t w[16], h[8];
                        for (int j = 0; j < 16; j++) w[j] = be32(in + b * 1024 + 64 * j + 4 * s);
                        for (int i = 0; i < W; i++) h[i] = dig[i][s];
                        if (W == 5) sha1_c(h, w); else sha256_c(h, w);
                        for (int i = 0; i < W; i++) dig[i][s] = h[i];
                }
}
typedef void (*blk1_t)(const uint8_t *, uint32_t (*)[16], uint8_t *, uint32_t);
void _mh_sha1_block_base(const uint8_t *, uint32_t (*)[16], uint8_t *, uint32_t);
void _mh_sha1_block_sse(const uint8_t *, uint32_t (*)[16], uint8_t *, uint32_t);
void _mh_sha1_block_avx(const uint8_t *, uint32_t (*)[16], uint8_t *, uint32_t);
void _mh_sha1_block_avx2(const uint8_t *, uint32_t (*)[16], uint8_t *, uint32_t);
void _mh_sha1_block_avx512(const uint8_t *, uint32_t (*)[16], uint8_t *, uint32_t);
void _mh_sha256_block_base(const uint8_t *, uint32_t (*)[16], uint8_t *, uint32_t);
void _mh_sha256_block_sse(const uint8_t *, uint32_t (*)[16], uint8_t *, uint32_t);
void _mh_sha256_block_avx(const uint8_t *, uint32_t (*)[16], uint8_t *, uint32_t);
void _mh_sha256_block_avx2(const uint8_t *, uint32_t (*)[16], uint8_t *, uint32_t);
void _mh_sha256_block_avx512(const uint8_t *, uint32_t (*)[16], uint8_t *, uint32_t);
void _sha1_for_mh_sha1(const uint8_t *, uint32_t *, const uint32_t);
void sha256_for_mh_sha256(const uint8_t *, uint32_t *, const uint32_t);

static void mh_ref(int W, const uint8_t *m, size_t n, uint32_t *out)
{
        static uint8_t pad[1 << 16];
        size_t tot = ((n + 9 + 1023) / 1024) * 1024;
        uint32_t seg[8][16], iv[8];
        static const uint32_t iv1[5] = { 0x67452301, 0xefcdab89, 0x98badcfe, 0x10325476, 0xc3d2e1f0 };
        static const uint32_t iv2[8] = { 0x6a09e667, 0xbb67ae85, 0x3c6ef372, 0xa54ff53a, 0x510e527f, 0x9b05688c, 0x1f83d9ab, 0x5be0cd19 };
        memset(pad, 0, tot); memcpy(pad, m, n); pad[n] = 0x80;
        for (int i = 0; i < 8; i++) pad[tot - 1 - i] = (uint8_t) (((uint64_t) n * 8) >> (8 * i));
        memcpy(iv, W == 5 ? iv1 : iv2, 4 * W);
        for (int i = 0; i < W; i++) for (int s = 0; s < 16; s++) seg[i][s] = iv[i];
        ref_block(W, pad, seg, tot / 1024);
        std_hash(W, (uint8_t *) seg, 4 * W * 16, out);
}
int main(int argc, char **argv)
{
        unsigned iters = argc > 1 ? atoi(argv[1]) : 200;
        if (argc > 2) X ^= strtoull(argv[2], 0, 0) * 0x9E3779B97F4A7C15ull;
        static uint8_t in[8 * 1024 + 64] __attribute__((aligned(64))), frame[1024 + 64] __attribute__((aligned(64)));
        unsigned long cases = 0;
        blk1_t f1[] = { _mh_sha1_block_sse, _mh_sha1_block_avx, _mh_sha1_block_avx2, _mh_sha1_block_avx512 };
        blk1_t f2[] = { _mh_sha256_block_sse, _mh_sha256_block_avx, _mh_sha256_block_avx2, _mh_sha256_block_avx512 };
        const char *fn[] = { "sse", "avx", "avx2", "avx512" };
        for (unsigned it = 0; it < iters; it++) {
                unsigned nblk = 1 + rnd() % 4, off = rnd() % 64;
                for (unsigned i = 0; i < sizeof in; i++) in[i] = (uint8_t) rnd();
                for (int W = 5; W <= 8; W += 3) {
                        uint32_t d0[8][16] __attribute__((aligned(64))), dr[8][16], dx[8][16] __attribute__((aligned(64)));
                        for (int i = 0; i < W; i++) for (int s = 0; s < 16; s++) d0[i][s] = dr[i][s] = (uint32_t) rnd();
                        memcpy(dx, d0, sizeof d0);
                        ref_block(W, in + off, dr, nblk);
                        uint32_t db[8][16] __attribute__((aligned(64))); memcpy(db, d0, sizeof d0);
                        (W == 5 ? _mh_sha1_block_base : _mh_sha256_block_base)(in + off, db, frame, nblk);
                        cases++;
                        if (memcmp(db, dr, 4 * W * 16)) { printf("DISAGREE block_base vs definition: W=%d nblk=%u off=%u iter=%u\n", W, nblk, off, it); return 1; }
                        for (int k = 0; k < 4; k++) {
                                memcpy(dx, d0, sizeof d0);
                                (W == 5 ? f1 : f2)[k](in + off, dx, frame, nblk);
                                cases++;
                                if (memcmp(dx, db, 4 * W * 16)) { printf("DISAGREE block_%s vs block_base: W=%d nblk=%u off=%u iter=%u\n", fn[k], W, nblk, off, it); return 1; }
                        }
                        uint32_t o1[8], o2[8];
                        if (W == 5) _sha1_for_mh_sha1((uint8_t *) db, o1, 320); else sha256_for_mh_sha256((uint8_t *) db, o1, 512);
                        std_hash(W, (uint8_t *) db, 4 * W * 16, o2);
                        cases++;
                        if (memcmp(o1, o2, 4 * W)) { printf("DISAGREE outer hash vs standard: W=%d iter=%u\n", W, it); return 1; }
                }
                /* end to end with a random segmentation */
                size_t n = rnd() % (sizeof in - 64);
                uint32_t r1[8], r2[8];
                { struct isal_mh_sha1_ctx c; isal_mh_sha1_init(&c); size_t p = 0; while (p < n) { size_t l = rnd() % 2500; if (l > n - p) l = n - p; isal_mh_sha1_update(&c, in + p, (uint32_t) l); p += l; }
                  isal_mh_sha1_finalize(&c, r1); mh_ref(5, in, n, r2); cases++;
                  if (memcmp(r1, r2, 20)) { printf("DISAGREE mh_sha1 end-to-end: n=%zu iter=%u\n", n, it); return 1; } }
                { struct isal_mh_sha256_ctx c; isal_mh_sha256_init(&c); size_t p = 0; while (p < n) { size_t l = rnd() % 2500; if (l > n - p) l = n - p; isal_mh_sha256_update(&c, in + p, (uint32_t) l); p += l; }
                  isal_mh_sha256_finalize(&c, r1); mh_ref(8, in, n, r2); cases++;
                  if (memcmp(r1, r2, 32)) { printf("DISAGREE mh_sha256 end-to-end: n=%zu iter=%u\n", n, it); return 1; } }
        }
        printf("AGREE cases=%lu\n", cases);
        return 0;
}
