/* roll_diff.c - BOUNDED native check of the assumed contract of the NASM scan loops
 * _rolling_hash2_run_until_00 / _04: (a) for triggers inside the mask the same (index, hash) as the C loop
 * _rolling_hash2_run_until_base, whose contract is PROVED; (b) for ARBITRARY triggers the contract itself
 * (contracts/rolling_prelude.h VF_C_RUN_UNTIL) against a recomputed hash stream: an early stop only where the
 * masked bits match, returned hash = hash after the byte at the returned index (early stop) or after the last
 * byte, no skipped position with (hash & mask) == trigger.  Bound: w in [1,48], scan lengths 0..LMAX beyond w, masks with 0..4 bits,
 * NSEED random buffers each.  Prints the first disagreement as a replayable input. */
#include <stdio.h>
#include <stdlib.h>
#include <string.h>
#include <stdint.h>
uint64_t _rolling_hash2_run_until_base(uint32_t *, int, uint64_t *, uint64_t *, uint8_t *, uint8_t *, uint64_t, uint64_t, uint64_t);
uint64_t _rolling_hash2_run_until_00(uint32_t *, int, uint64_t *, uint64_t *, uint8_t *, uint8_t *, uint64_t, uint64_t, uint64_t);
uint64_t _rolling_hash2_run_until_04(uint32_t *, int, uint64_t *, uint64_t *, uint8_t *, uint8_t *, uint64_t, uint64_t, uint64_t);
extern uint64_t rolling_hash2_table1[256];
static uint64_t x = 88172645463325252ull;
static uint64_t rnd(void) { x ^= x << 13; x ^= x >> 7; x ^= x << 17; return x; }
typedef uint64_t (*scan_fn)(uint32_t *, int, uint64_t *, uint64_t *, uint8_t *, uint8_t *, uint64_t, uint64_t, uint64_t);
static int contract(const char *name, scan_fn f, unsigned w, unsigned len, uint64_t *t2, uint8_t *buf, uint64_t h0, uint64_t mask, uint64_t trig)
{
        static uint64_t H[8192];
        uint64_t h = h0;
        for (unsigned r = w; r < len; r++) {
                h = (h << 1) | (h >> 63);
                h ^= rolling_hash2_table1[buf[r]] ^ t2[buf[r - w]];
                H[r] = h;
        }
        uint32_t idx = w;
        uint64_t ret = f(&idx, (int) len, rolling_hash2_table1, t2, buf, buf - w, h0, mask, trig);
        const char *why = 0;
        if (idx < w || idx > len) why = "index out of range";
        else if (idx < len && ((ret & mask) != (trig & mask) || ret != H[idx])) why = "early stop without masked match / wrong hash";
        else if (idx >= len && ret != (len > w ? H[len - 1] : h0)) why = "hash after the last byte wrong";
        if (!why && idx >= len && len > w && (ret & mask) == trig) why = "ran to the end although the last position matched";
        for (unsigned r = w; !why && r < idx && r < len; r++)
                if ((H[r] & mask) == trig) why = "skipped a hit";
        if (why) {
                printf("CONTRACT %s: %s: w=%u len=%u mask=%#llx trigger=%#llx h0=%#llx idx=%u ret=%#llx\n", name, why, w, len,
                       (unsigned long long) mask, (unsigned long long) trig, (unsigned long long) h0, idx, (unsigned long long) ret);
                printf("buffer:"); for (unsigned i = 0; i < len; i++) printf(" %02x", buf[i]); printf("\n");
                return 1;
        }
        return 0;
}
/* (c) end to end: isal_rolling_hash2_{init,reset,run} (dispatched scan + the C wrapper) over a random stream cut into
 * random run calls, against the property's own definition: hit at the first position whose CLOSED-FORM window hash
 * XOR_{j<w} rol(T1[byte(e-j)], j) satisfies (hash & mask) == trigger, otherwise max_len bytes consumed. */
#include "rolling_hashx.h"
static uint64_t closed(const uint8_t *S, long e, unsigned w)
{
        uint64_t h = 0;
        for (unsigned j = 0; j < w; j++) {
                uint64_t v = rolling_hash2_table1[S[e - j]];
                h ^= j ? ((v << j) | (v >> (64 - j))) : v;
        }
        return h;
}
static int end_to_end(unsigned long *calls, unsigned nstreams)
{
        static uint8_t S[6000];
        static struct isal_rh_state2 st;
        for (unsigned n = 0; n < nstreams; n++) {
                unsigned w = 1 + rnd() % 48, total = w + rnd() % 5000;
                uint32_t masks[6] = { 0, 1, 3, 0xf, 0x3f, 0x11 };
                uint32_t mask = masks[rnd() % 6], trig = (rnd() % 4) ? (uint32_t) rnd() & mask : (uint32_t) rnd() & (mask | 0x21);
                for (unsigned i = 0; i < total; i++) S[i] = (uint8_t) rnd();
                /* memory the API has not initialised yet is arbitrary (C20): garbage in the whole state object before init */
                for (unsigned i = 0; i < sizeof(st); i++) ((uint8_t *) &st)[i] = (uint8_t) rnd();
                if (isal_rolling_hash2_init(&st, w) || isal_rolling_hash2_reset(&st, S)) { printf("E2E init/reset failed w=%u\n", w); return 1; }
                unsigned cur = w;
                while (cur < total) {
                        uint32_t maxlen = (rnd() % 3 == 0) ? rnd() % (2 * w + 2) : rnd() % (total - cur + 1);
                        if (maxlen > total - cur) maxlen = total - cur;
                        uint32_t off = 0xdeadbeef; int match = -1;
                        int r = isal_rolling_hash2_run(&st, S + cur, maxlen, mask, trig, &off, &match);
                        (*calls)++;
                        uint32_t eoff = maxlen; int ematch = 1; /* ISAL_FINGERPRINT_RET_MAX */
                        for (uint32_t p = 0; p < maxlen; p++)
                                if ((closed(S, (long) cur + p, w) & mask) == trig) { eoff = p + 1; ematch = 0; break; }
                        if (r != 0 || off != eoff || match != ematch) {
                                printf("E2E isal_rolling_hash2_run: w=%u stream_pos=%u max_len=%u mask=%#x trigger=%#x: got ret=%d match=%d offset=%u, "
                                       "definition says match=%d offset=%u\n", w, cur, maxlen, mask, trig, r, match, off, ematch, eoff);
                                return 1;
                        }
                        cur += off;
                }
        }
        return 0;
}
int main(int argc, char **argv)
{
        unsigned lmax = argc > 1 ? atoi(argv[1]) : 70, nseed = argc > 2 ? atoi(argv[2]) : 10;
        if (argc > 3) x ^= strtoull(argv[3], 0, 0) * 0x9E3779B97F4A7C15ull;
        static uint64_t t2[256]; static uint8_t buf[4096];
        unsigned long calls = 0, distinct = 0;
        for (unsigned w = 1; w <= 48; w++) {
                for (int i = 0; i < 256; i++) t2[i] = (rolling_hash2_table1[i] << w) | (rolling_hash2_table1[i] >> (64 - w));
                for (unsigned extra = 0; extra <= lmax; extra++)
                        for (unsigned s = 0; s < nseed; s++) {
                                unsigned len = w + extra;
                                for (unsigned i = 0; i < len; i++) buf[i] = (uint8_t) rnd();
                                uint64_t masks[5] = { 0, 1, 3, 0xf, 0x11 };
                                for (int m = 0; m < 5; m++) {
                                        uint64_t mask = masks[m], trig = rnd() & mask, h0 = rnd();
                                        uint32_t ib = w, i0 = w, i4 = w;
                                        uint64_t hb = _rolling_hash2_run_until_base(&ib, (int) len, rolling_hash2_table1, t2, buf, buf - w, h0, mask, trig);
                                        uint64_t h00 = _rolling_hash2_run_until_00(&i0, (int) len, rolling_hash2_table1, t2, buf, buf - w, h0, mask, trig);
                                        uint64_t h04 = _rolling_hash2_run_until_04(&i4, (int) len, rolling_hash2_table1, t2, buf, buf - w, h0, mask, trig);
                                        calls += 3; distinct++;
                                        {
                                                uint64_t trig2 = rnd() & (mask | 0x33); /* may have bits outside the mask */
                                                if (contract("_base", _rolling_hash2_run_until_base, w, len, t2, buf, h0, mask, trig2) ||
                                                    contract("_00", _rolling_hash2_run_until_00, w, len, t2, buf, h0, mask, trig2) ||
                                                    contract("_04", _rolling_hash2_run_until_04, w, len, t2, buf, h0, mask, trig2)) {
                                                        printf("calls=%lu cases=%lu\n", calls, distinct);
                                                        return 1;
                                                }
                                                calls += 3; distinct++;
                                        }
                                        if (ib != i0 || hb != h00 || ib != i4 || hb != h04) {
                                                printf("DISAGREE w=%u len=%u mask=%#llx trigger=%#llx h0=%#llx: base idx=%u hash=%#llx | _00 idx=%u hash=%#llx | _04 idx=%u hash=%#llx\n",
                                                       w, len, (unsigned long long) mask, (unsigned long long) trig, (unsigned long long) h0, ib,
                                                       (unsigned long long) hb, i0, (unsigned long long) h00, i4, (unsigned long long) h04);
                                                printf("buffer:"); for (unsigned i = 0; i < len; i++) printf(" %02x", buf[i]); printf("\n");
                                                printf("calls=%lu cases=%lu\n", calls, distinct);
                                                return 1;
                                        }
                                }
                        }
        }
        if (end_to_end(&calls, lmax * nseed)) {
                printf("calls=%lu cases=%lu\n", calls, distinct);
                return 1;
        }
        printf("AGREE calls=%lu cases=%lu\n", calls, distinct);
        return 0;
}
