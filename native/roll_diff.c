/* roll_diff.c - BOUNDED native check of the assumed contract of the NASM scan loops
 * _rolling_hash2_run_until_00 / _04: same (index, hash) as the C loop _rolling_hash2_run_until_base,
 * whose contract is PROVED.  Bound: w in [1,48], scan lengths 0..LMAX beyond w, masks with 0..4 bits,
 * NSEED random buffers each.  Prints the first disagreement as a replayable input. */
#include <stdio.h>
#include <stdlib.h>
#include <string.h>
#include <stdint.h>
uint64_t _rolling_hash2_run_until_base(uint32_t *, int, uint64_t *, uint64_t *, uint8_t *, uint8_t *, uint64_t, uint64_t, uint64_t);
uint64_t _rolling_hash2_run_until_00(uint32_t *, int, uint64_t *, uint64_t *, uint8_t *, uint8_t *, uint64_t, uint64_t, uint64_t);
uint64_t _rolling_hash2_run_until_04(uint32_t *, int, uint64_t *, uint64_t *, uint8_t *, uint8_t *, uint64_t, uint64_t, uint64_t);
extern uint64_t rolling_hash2_table1[256];
static uint64_t x = 88172645463325252ull;
static uint64_t rnd(void) { x ^= x << 13; x ^= x >> 7; x ^= x << 17; return x; }
int main(int argc, char **argv)
{
        unsigned lmax = argc > 1 ? atoi(argv[1]) : 70, nseed = argc > 2 ? atoi(argv[2]) : 10;
        if (argc > 3) x ^= strtoull(argv[3], 0, 0) * 0x9E3779B97F4A7C15ull;
        static uint64_t t2[256]; static uint8_t buf[4096];
        unsigned long calls = 0, distinct = 0;
        for (unsigned w = 1; w <= 48; w++) {
                for (int i = 0; i < 256; i++) t2[i] = (rolling_hash2_table1[i] << w) | (rolling_hash2_table1[i] >> (64 - w));
                for (unsigned extra = 0; extra <= lmax; extra++)
                        for (unsigned s = 0; s < nseed; s++) {
                                unsigned len = w + extra;
                                for (unsigned i = 0; i < len; i++) buf[i] = (uint8_t) rnd();
                                uint64_t masks[5] = { 0, 1, 3, 0xf, 0x11 };
                                for (int m = 0; m < 5; m++) {
                                        uint64_t mask = masks[m], trig = rnd() & mask, h0 = rnd();
                                        uint32_t ib = w, i0 = w, i4 = w;
                                        uint64_t hb = _rolling_hash2_run_until_base(&ib, (int) len, rolling_hash2_table1, t2, buf, buf - w, h0, mask, trig);
                                        uint64_t h00 = _rolling_hash2_run_until_00(&i0, (int) len, rolling_hash2_table1, t2, buf, buf - w, h0, mask, trig);
                                        uint64_t h04 = _rolling_hash2_run_until_04(&i4, (int) len, rolling_hash2_table1, t2, buf, buf - w, h0, mask, trig);
                                        calls += 3; distinct++;
                                        if (ib != i0 || hb != h00 || ib != i4 || hb != h04) {
                                                printf("DISAGREE w=%u len=%u mask=%#llx trigger=%#llx h0=%#llx: base idx=%u hash=%#llx | _00 idx=%u hash=%#llx | _04 idx=%u hash=%#llx\n",
                                                       w, len, (unsigned long long) mask, (unsigned long long) trig, (unsigned long long) h0, ib,
                                                       (unsigned long long) hb, i0, (unsigned long long) h00, i4, (unsigned long long) h04);
                                                printf("buffer:"); for (unsigned i = 0; i < len; i++) printf(" %02x", buf[i]); printf("\n");
                                                printf("calls=%lu cases=%lu\n", calls, distinct);
                                                return 1;
                                        }
                                }
                        }
        }
        printf("AGREE calls=%lu cases=%lu\n", calls, distinct);
        return 0;
}
